use crate::misc::loc;
use oal_compiler::errors::{Error as CErr, Kind};
use oal_compiler::module::{Loader, ModuleSet};
use oal_compiler::tree::Tree;
use oal_model::locator::Locator;
use serde_json::{json, Value};
use std::collections::BTreeMap;

#[derive(Debug)]
pub enum HErr {
    Compiler(CErr),
    /// (locator, errors as JSON) — syntax errors of one module
    Syntax(String, Vec<Value>),
    Io(String),
}

impl From<CErr> for HErr {
    fn from(e: CErr) -> Self {
        HErr::Compiler(e)
    }
}

pub fn span_json(s: Option<&oal_model::span::Span>) -> Value {
    match s {
        Some(s) => json!([s.locator().url().as_str(), s.start(), s.end()]),
        None => Value::Null,
    }
}

pub fn kind_name(k: &Kind) -> String {
    match k {
        Kind::Locator(_) => "Locator".into(),
        Kind::Yaml(_) => "Yaml".into(),
        Kind::Syntax(_) => "Syntax".into(),
        Kind::NotInScope => "NotInScope".into(),
        Kind::InvalidType => "InvalidType".into(),
        Kind::CycleDetected => "CycleDetected".into(),
        Kind::InvalidLiteral => "InvalidLiteral".into(),
        Kind::InvalidIdentifier => "InvalidIdentifier".into(),
        Kind::InvalidModule(l) => format!("InvalidModule({})", l.url()),
    }
}

pub fn herr_json(e: &HErr) -> Value {
    match e {
        HErr::Compiler(c) => {
            json!({"class": "compiler", "kind": kind_name(&c.kind), "msg": c.to_string(), "span": span_json(c.span())})
        }
        HErr::Syntax(l, errs) => json!({"class": "syntax", "loc": l, "errors": errs}),
        HErr::Io(m) => json!({"class": "io", "msg": m}),
    }
}

/// An in-memory loader that records every call made by `module::load`.
pub struct MemLoader<'a> {
    pub files: &'a BTreeMap<String, String>,
    pub calls: Vec<Value>,
    /// run the real compiler in `compile` (otherwise only record the call)
    pub real_compile: bool,
    /// run only name resolution (hook H2) instead of all compilation phases
    pub resolve_only: bool,
}

impl Loader<HErr> for MemLoader<'_> {
    fn is_valid(&mut self, l: &Locator) -> bool {
        let ok = self.files.contains_key(l.url().as_str());
        self.calls.push(json!(["is_valid", l.url().as_str(), ok]));
        ok
    }

    fn load(&mut self, l: &Locator) -> Result<String, HErr> {
        self.calls.push(json!(["load", l.url().as_str()]));
        self.files
            .get(l.url().as_str())
            .cloned()
            .ok_or_else(|| HErr::Io(format!("no such file {}", l.url())))
    }

    fn parse(&mut self, l: Locator, input: String) -> Result<Tree, HErr> {
        self.calls.push(json!(["parse", l.url().as_str()]));
        let (tree, errs) = oal_syntax::parse(l.clone(), input);
        if errs.is_empty() {
            tree.ok_or_else(|| HErr::Syntax(l.url().as_str().to_owned(), vec![]))
        } else {
            let js = errs
                .iter()
                .map(|e| match e {
                    oal_syntax::errors::Error::Grammar(g) => {
                        json!(["grammar", g.to_string(), g.span().start(), g.span().end()])
                    }
                    oal_syntax::errors::Error::Lexicon(x) => {
                        json!(["lexicon", "", x.span().start(), x.span().end()])
                    }
                    oal_syntax::errors::Error::Domain => json!(["domain", "", 0, 0]),
                })
                .collect();
            Err(HErr::Syntax(l.url().as_str().to_owned(), js))
        }
    }

    fn compile(&mut self, mods: &ModuleSet, l: &Locator) -> Result<(), HErr> {
        self.calls.push(json!(["compile", l.url().as_str()]));
        if self.resolve_only {
            oal_compiler::verif::resolve(mods, l)
                .map(|_| ())
                .map_err(HErr::Compiler)
        } else if self.real_compile {
            oal_compiler::compile::compile(mods, l).map_err(HErr::Compiler)
        } else {
            Ok(())
        }
    }
}

pub fn files_of(case: &Value) -> BTreeMap<String, String> {
    case["files"]
        .as_object()
        .unwrap()
        .iter()
        .map(|(k, v)| (k.clone(), v.as_str().unwrap().to_owned()))
        .collect()
}

/// {"main": url, "files": {url: text}, "real_compile": bool} -> call log and result
pub fn load(case: &Value) -> Value {
    let files = files_of(case);
    let main = loc(case["main"].as_str().unwrap());
    let mut loader = MemLoader {
        files: &files,
        calls: Vec::new(),
        real_compile: case["real_compile"].as_bool().unwrap_or(false),
        resolve_only: false,
    };
    let res = oal_compiler::module::load(&mut loader, &main);
    let result = match &res {
        Ok(mods) => {
            let mut ls: Vec<String> = mods.locators().map(|l| l.url().as_str().to_owned()).collect();
            ls.sort();
            json!({"ok": true, "modules": ls})
        }
        Err(e) => json!({"ok": false, "error": herr_json(e)}),
    };
    json!({"outcome": "ok", "calls": loader.calls, "result": result})
}
