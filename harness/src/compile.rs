use crate::load::{files_of, herr_json, span_json, MemLoader};
use crate::misc::loc;
use oal_compiler::definition::Definition;
use oal_compiler::module::ModuleSet;
use oal_compiler::tree::Tree;
use oal_model::grammar::AbstractSyntaxNode;
use oal_syntax::parser as syn;
use serde_json::{json, Value};

fn bindings_of(mods: &ModuleSet, tree: &Tree) -> Vec<Value> {
    let mut out = Vec::new();
    for node in tree.root().descendants() {
        if let Some(var) = syn::Variable::cast(node) {
            let sp = var.node().span();
            let name = var.ident();
            let qual = var.qualifier().map(|q| q.ident().as_ref().to_owned());
            let core_has = node.syntax().has_core();
            let d = if core_has {
                match node.syntax().core_ref().definition() {
                    Some(Definition::External(ext)) => {
                        let n = ext.node(mods);
                        let kind = if syn::Declaration::cast(n).is_some() {
                            "decl"
                        } else if syn::Binding::cast(n).is_some() {
                            if n.ancestors().nth(1).map(|p| syn::Recursion::cast(p).is_some()).unwrap_or(false) {
                                "rec"
                            } else {
                                "param"
                            }
                        } else {
                            "other"
                        };
                        json!({"ext": kind, "span": span_json(n.span().as_ref())})
                    }
                    Some(Definition::Internal(i)) => json!({"int": i.id()}),
                    None => Value::Null,
                }
            } else {
                Value::Null
            };
            out.push(json!({"use": span_json(sp.as_ref()), "name": name.as_ref(), "qual": qual, "def": d}));
        }
    }
    out
}

fn decls_of(tree: &Tree) -> Vec<Value> {
    let mut out = Vec::new();
    let prog = syn::Program::cast(tree.root()).expect("program");
    for d in prog.declarations() {
        let n = d.node();
        let (tag, rec) = if n.syntax().has_core() {
            let c = n.syntax().core_ref();
            (c.tag().map(|t| t.to_string()), c.is_recursive)
        } else {
            (None, false)
        };
        out.push(json!({"name": d.ident().as_ref(), "span": span_json(n.span().as_ref()), "tag": tag, "rec": rec,
                        "nparams": d.bindings().count()}));
    }
    out
}

/// {"main", "files", "base": yaml|null, "want": {...}} -> everything observable about one compilation
pub fn compile(case: &Value) -> Value {
    let files = files_of(case);
    let main = loc(case["main"].as_str().unwrap());
    let want = |k: &str| case["want"].get(k).and_then(Value::as_bool).unwrap_or(false);
    let mut loader = MemLoader {
        files: &files,
        calls: Vec::new(),
        real_compile: true,
        resolve_only: case["resolve_only"].as_bool().unwrap_or(false),
    };
    let res = crate::guarded(|| oal_compiler::module::load(&mut loader, &main));
    let mut out = json!({"outcome": "ok"});
    if want("calls") {
        out["calls"] = Value::Array(loader.calls.clone());
    }
    let mods = match res {
        Err(p) => {
            out["load"] = json!({"result": "panic", "panic": crate::panic_json(p)});
            return out;
        }
        Ok(Err(e)) => {
            out["load"] = json!({"result": "err", "error": herr_json(&e)});
            return out;
        }
        Ok(Ok(m)) => m,
    };
    out["load"] = json!({"result": "ok"});
    if want("bindings") || want("decls") {
        let mut ms = serde_json::Map::new();
        let mut ls: Vec<_> = mods.locators().cloned().collect();
        ls.sort();
        for l in ls {
            let t = mods.get(&l).unwrap();
            ms.insert(
                l.url().as_str().to_owned(),
                json!({"bindings": bindings_of(&mods, t), "decls": decls_of(t)}),
            );
        }
        out["modules"] = Value::Object(ms);
    }
    if case["resolve_only"].as_bool().unwrap_or(false) {
        return out;
    }
    if want("events") {
        oal_compiler::eval::verif::start();
    }
    let ev = crate::guarded(|| oal_compiler::eval::eval(&mods));
    if want("events") {
        out["events"] = json!(oal_compiler::eval::verif::take());
    }
    let spec = match ev {
        Err(p) => {
            out["eval"] = json!({"result": "panic", "panic": crate::panic_json(p)});
            return out;
        }
        Ok(Err(e)) => {
            out["eval"] = json!({"result": "err", "kind": crate::load::kind_name(&e.kind), "msg": e.to_string(), "span": span_json(e.span())});
            return out;
        }
        Ok(Ok(s)) => s,
    };
    out["eval"] = json!({"result": "ok"});
    if want("spec") {
        out["spec"] = crate::abs::spec(&spec);
    }
    let base: Option<openapiv3::OpenAPI> = match case.get("base").and_then(Value::as_str) {
        Some(y) => match serde_yaml::from_str(y) {
            Ok(b) => Some(b),
            Err(e) => {
                out["emit"] = json!({"result": "bad-base", "msg": e.to_string()});
                return out;
            }
        },
        None => None,
    };
    let em = crate::guarded(|| {
        let mut b = oal_openapi::Builder::new(spec);
        if let Some(base) = base {
            b = b.with_base(base);
        }
        let api = b.into_openapi();
        let yaml = serde_yaml::to_string(&api);
        (api, yaml)
    });
    match em {
        Err(p) => {
            out["emit"] = json!({"result": "panic", "panic": crate::panic_json(p)});
        }
        Ok((api, yaml)) => match yaml {
            Err(e) => {
                out["emit"] = json!({"result": "yaml-err", "msg": e.to_string()});
            }
            Ok(y) => {
                let back: Result<openapiv3::OpenAPI, _> = serde_yaml::from_str(&y);
                // "parses back to the same document": the document a consumer reads from the text (as an OpenAPI
                // description) equals the one that was written - compared as documents, not as Rust values (the object
                // model has two representations of e.g. `format: date-time`, a known variant or an unknown string)
                let rt = match &back {
                    Ok(b) => *b == api || serde_json::to_value(b).ok() == serde_json::to_value(&api).ok(),
                    Err(_) => false,
                };
                out["emit"] = json!({"result": "ok", "roundtrip": rt,
                    "reparse_err": back.as_ref().err().map(|e| e.to_string())});
                if want("doc") {
                    // the document as parsed back from the YAML text (what a consumer sees)
                    let v: Result<Value, _> = serde_yaml::from_str(&y);
                    out["doc"] = v.unwrap_or(Value::Null);
                }
                if want("yaml") {
                    out["yaml"] = Value::String(y);
                }
            }
        },
    }
    out
}
