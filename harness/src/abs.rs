//! Abstraction of `oal_compiler::spec::Spec` values to JSON (the projection compared
//! with the TLA+ model of the evaluator).

use oal_compiler::spec::*;
use oal_syntax::atom;
use serde_json::{json, Map, Value};
use std::collections::BTreeMap;

fn opt<T: Into<Value> + Clone>(o: &Option<T>) -> Value {
    match o {
        Some(v) => v.clone().into(),
        None => Value::Null,
    }
}

/// Works for any map type the compiler uses for examples (hash map or ordered map).
fn examples<'a, M>(e: &'a Option<M>) -> Value
where
    &'a M: IntoIterator<Item = (&'a String, &'a String)>,
{
    match e {
        None => Value::Null,
        Some(m) => {
            let b: BTreeMap<_, _> = m.into_iter().collect();
            json!(b)
        }
    }
}

pub fn status(s: &atom::HttpStatus) -> Value {
    match s {
        atom::HttpStatus::Code(c) => json!(c.get()),
        atom::HttpStatus::Range(r) => json!(match r {
            atom::HttpStatusRange::Info => "1XX",
            atom::HttpStatusRange::Success => "2XX",
            atom::HttpStatusRange::Redirect => "3XX",
            atom::HttpStatusRange::ClientError => "4XX",
            atom::HttpStatusRange::ServerError => "5XX",
        }),
    }
}

pub fn object(o: &Object) -> Value {
    Value::Array(o.props.iter().map(property).collect())
}

pub fn property(p: &Property) -> Value {
    json!({"name": p.name.as_ref(), "schema": schema(&p.schema), "desc": opt(&p.desc), "required": opt(&p.required)})
}

pub fn uri(u: &Uri) -> Value {
    let path: Vec<Value> = u
        .path
        .iter()
        .map(|s| match s {
            UriSegment::Literal(l) => json!({"lit": l.as_ref()}),
            UriSegment::Variable(p) => json!({"var": property(p)}),
        })
        .collect();
    json!({"path": path, "params": u.params.as_ref().map(object), "example": opt(&u.example)})
}

pub fn schema(s: &Schema) -> Value {
    let expr = match &s.expr {
        SchemaExpr::Num(p) => json!({"k": "num", "minimum": p.minimum, "maximum": p.maximum, "multipleOf": p.multiple_of, "example": p.example}),
        SchemaExpr::Str(p) => json!({"k": "str", "pattern": p.pattern, "enum": p.enumeration, "format": p.format, "example": p.example, "minLength": p.min_length, "maxLength": p.max_length}),
        SchemaExpr::Bool(_) => json!({"k": "bool"}),
        SchemaExpr::Int(p) => json!({"k": "int", "minimum": p.minimum, "maximum": p.maximum, "multipleOf": p.multiple_of, "example": p.example}),
        SchemaExpr::Rel(r) => json!({"k": "rel", "rel": relation(r)}),
        SchemaExpr::Uri(u) => json!({"k": "uri", "uri": uri(u)}),
        SchemaExpr::Array(a) => json!({"k": "array", "item": schema(&a.item)}),
        SchemaExpr::Object(o) => json!({"k": "object", "props": object(o)}),
        SchemaExpr::Op(o) => json!({"k": "op", "op": format!("{:?}", o.op), "schemas": o.schemas.iter().map(schema).collect::<Vec<_>>()}),
        SchemaExpr::Ref(r) => json!({"k": "ref", "name": r.as_ref()}),
    };
    json!({"expr": expr, "desc": opt(&s.desc), "title": opt(&s.title), "required": opt(&s.required), "examples": examples(&s.examples)})
}

pub fn content(c: &Content) -> Value {
    json!({
        "schema": c.schema.as_ref().map(|s| schema(s)),
        "status": c.status.as_ref().map(status),
        "media": opt(&c.media),
        "headers": c.headers.as_ref().map(object),
        "desc": opt(&c.desc),
        "examples": examples(&c.examples),
    })
}

pub fn transfer(x: &Transfer) -> Value {
    let methods: Vec<String> = x
        .methods
        .iter()
        .filter(|(_, b)| **b)
        .map(|(m, _)| format!("{m:?}").to_lowercase())
        .collect();
    let ranges: Vec<Value> = x
        .ranges
        .iter()
        .map(|((s, m), c)| json!({"status": s.as_ref().map(status), "media": opt(m), "content": content(c)}))
        .collect();
    json!({
        "methods": methods, "domain": content(&x.domain), "ranges": ranges,
        "params": x.params.as_ref().map(object), "desc": opt(&x.desc), "summary": opt(&x.summary),
        "tags": x.tags, "id": opt(&x.id),
    })
}

pub fn relation(r: &Relation) -> Value {
    let mut xfers = Map::new();
    for (m, x) in r.xfers.iter() {
        if let Some(x) = x {
            xfers.insert(format!("{m:?}").to_lowercase(), transfer(x));
        }
    }
    json!({"uri": uri(&r.uri), "pattern": r.uri.pattern(), "xfers": xfers})
}

pub fn spec(s: &Spec) -> Value {
    let refs: Vec<Value> = s
        .refs
        .iter()
        .map(|(k, Reference::Schema(v))| json!([k.as_ref(), schema(v)]))
        .collect();
    json!({"rels": s.rels.iter().map(relation).collect::<Vec<_>>(), "refs": refs})
}
