use oal_client::lsp::unicode::verif as uni;
use oal_client::lsp::Workspace;
use oal_model::locator::Locator;
use oal_model::span::{CharSpan, Span};
use serde_json::{json, Value};

pub fn loc(s: &str) -> Locator {
    Locator::try_from(s).expect("valid locator")
}

/// {"text", "offsets":[n..], "positions":[[l,c]..], "ranges":[[s,e]..]}
pub fn unicode(case: &Value) -> Value {
    let text = case["text"].as_str().unwrap();
    let u2p: Vec<Value> = case["offsets"]
        .as_array()
        .map(|a| {
            a.iter()
                .map(|o| {
                    let (l, c) = uni::utf8_to_position(text, o.as_u64().unwrap() as usize);
                    json!([l, c])
                })
                .collect()
        })
        .unwrap_or_default();
    let p2u: Vec<Value> = case["positions"]
        .as_array()
        .map(|a| {
            a.iter()
                .map(|p| {
                    let l = p[0].as_u64().unwrap() as u32;
                    let c = p[1].as_u64().unwrap() as u32;
                    json!(uni::position_to_utf8(text, l, c))
                })
                .collect()
        })
        .unwrap_or_default();
    let r2p: Vec<Value> = case["ranges"]
        .as_array()
        .map(|a| {
            a.iter()
                .map(|r| {
                    let s = r[0].as_u64().unwrap() as usize;
                    let e = r[1].as_u64().unwrap() as usize;
                    let ((sl, sc), (el, ec)) = uni::utf8_range_to_position(text, s, e);
                    json!([[sl, sc], [el, ec]])
                })
                .collect()
        })
        .unwrap_or_default();
    json!({"outcome": "ok", "u2p": u2p, "p2u": p2u, "r2p": r2p})
}

/// {"text","spans":[[s,e]..]} -> code point spans
pub fn charspan(case: &Value) -> Value {
    let text = case["text"].as_str().unwrap();
    let l = loc("file:///m.oal");
    let out: Vec<Value> = case["spans"]
        .as_array()
        .unwrap()
        .iter()
        .map(|r| {
            let s = r[0].as_u64().unwrap() as usize;
            let e = r[1].as_u64().unwrap() as usize;
            let cs = CharSpan::from(text, Span::new(l.clone(), s..e));
            json!([cs.start, cs.end])
        })
        .collect();
    json!({"outcome": "ok", "spans": out})
}

/// {"text"} -> playground entry point
pub fn wasm(case: &Value) -> Value {
    let text = case["text"].as_str().unwrap();
    let r = oal_wasm::compile(text);
    json!({"outcome": "ok", "api": r.api, "error": r.error})
}

/// {"events":[{"op":"open"|"change"|"close","uri",..}]} -> stored text after every event
pub fn lsptext(case: &Value) -> Value {
    let mut ws = Workspace::default();
    let mut out = Vec::new();
    for ev in case["events"].as_array().unwrap() {
        let uri = ev["uri"].as_str().unwrap();
        let url = url::Url::parse(uri).unwrap();
        let l = Locator::from(url.clone());
        match ev["op"].as_str().unwrap() {
            "open" => {
                let p = lsp_types::DidOpenTextDocumentParams {
                    text_document: lsp_types::TextDocumentItem {
                        uri: url,
                        language_id: "oal".into(),
                        version: 0,
                        text: ev["text"].as_str().unwrap().to_owned(),
                    },
                };
                ws.open(p).unwrap();
            }
            "close" => {
                let p = lsp_types::DidCloseTextDocumentParams {
                    text_document: lsp_types::TextDocumentIdentifier { uri: url },
                };
                ws.close(p).unwrap();
            }
            "change" => {
                let changes = ev["changes"]
                    .as_array()
                    .unwrap()
                    .iter()
                    .map(|c| {
                        let range = if c["range"].is_null() {
                            None
                        } else {
                            let r = &c["range"];
                            let pos = |v: &Value| lsp_types::Position {
                                line: v[0].as_u64().unwrap() as u32,
                                character: v[1].as_u64().unwrap() as u32,
                            };
                            Some(lsp_types::Range {
                                start: pos(&r[0]),
                                end: pos(&r[1]),
                            })
                        };
                        lsp_types::TextDocumentContentChangeEvent {
                            range,
                            range_length: None,
                            text: c["text"].as_str().unwrap().to_owned(),
                        }
                    })
                    .collect();
                let p = lsp_types::DidChangeTextDocumentParams {
                    text_document: lsp_types::VersionedTextDocumentIdentifier {
                        uri: url,
                        version: 0,
                    },
                    content_changes: changes,
                };
                ws.change(p).unwrap();
            }
            o => panic!("harness: unknown op {o}"),
        }
        out.push(match ws.verif_text(&l) {
            Some(t) => Value::String(t.to_owned()),
            None => Value::Null,
        });
    }
    json!({"outcome": "ok", "texts": out})
}
