use crate::load::{herr_json, MemLoader};
use crate::misc::loc;
use serde_json::{json, Value};
use std::collections::BTreeMap;

/// {"text": program, "base": yaml} -> output with base, output without base, base as
/// understood by the OpenAPI object model (all three as JSON values)
pub fn merge(case: &Value) -> Value {
    let text = case["text"].as_str().unwrap();
    let main = "file:///main.oal";
    let mut files = BTreeMap::new();
    files.insert(main.to_owned(), text.to_owned());
    let mut loader = MemLoader {
        files: &files,
        calls: Vec::new(),
        real_compile: true,
        resolve_only: false,
    };
    let mods = match oal_compiler::module::load(&mut loader, &loc(main)) {
        Ok(m) => m,
        Err(e) => return json!({"outcome": "ok", "result": "load-err", "error": herr_json(&e)}),
    };
    let spec = match oal_compiler::eval::eval(&mods) {
        Ok(s) => s,
        Err(e) => return json!({"outcome": "ok", "result": "eval-err", "msg": e.to_string()}),
    };
    let base_yaml = case["base"].as_str().unwrap();
    let base: openapiv3::OpenAPI = match serde_yaml::from_str(base_yaml) {
        Ok(b) => b,
        Err(e) => return json!({"outcome": "ok", "result": "bad-base", "msg": e.to_string()}),
    };
    let base_norm = serde_json::to_value(&base).unwrap();
    let plain = oal_openapi::Builder::new(spec.clone()).into_openapi();
    let merged = oal_openapi::Builder::new(spec).with_base(base).into_openapi();
    let merged_yaml = serde_yaml::to_string(&merged).unwrap();
    let merged_back: Value = serde_yaml::from_str(&merged_yaml).unwrap();
    json!({
        "outcome": "ok", "result": "ok",
        "base_norm": base_norm,
        "plain": serde_json::to_value(&plain).unwrap(),
        "merged": serde_json::to_value(&merged).unwrap(),
        "merged_yaml_back": merged_back,
    })
}
