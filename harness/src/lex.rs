use crate::misc::loc;
use oal_model::grammar::{Context, NodeRef, ParserMatch, SyntaxTree, SyntaxTrunk};
use oal_model::lexicon::{Lexeme, TokenList};
use oal_syntax::lexer::{tokenize, Token, TokenKind, TokenValue};
use oal_syntax::parser::{self, Gram};
use serde_json::{json, Value};
use std::collections::HashMap;

pub const KINDS: &[TokenKind] = &[
    TokenKind::Space,
    TokenKind::CommentLine,
    TokenKind::CommentBlock,
    TokenKind::PrimitiveNum,
    TokenKind::PrimitiveStr,
    TokenKind::PrimitiveUri,
    TokenKind::PrimitiveBool,
    TokenKind::PrimitiveInt,
    TokenKind::PathElementRoot,
    TokenKind::PathElementSegment,
    TokenKind::MethodGet,
    TokenKind::MethodPut,
    TokenKind::MethodPost,
    TokenKind::MethodPatch,
    TokenKind::MethodDelete,
    TokenKind::MethodOptions,
    TokenKind::MethodHead,
    TokenKind::ContentMedia,
    TokenKind::ContentHeaders,
    TokenKind::ContentStatus,
    TokenKind::KeywordLet,
    TokenKind::KeywordRes,
    TokenKind::KeywordUse,
    TokenKind::KeywordAs,
    TokenKind::KeywordOn,
    TokenKind::KeywordRec,
    TokenKind::IdentifierValue,
    TokenKind::IdentifierReference,
    TokenKind::LiteralNumber,
    TokenKind::LiteralString,
    TokenKind::LiteralHttpStatus,
    TokenKind::Property,
    TokenKind::ControlBraceLeft,
    TokenKind::ControlBraceRight,
    TokenKind::ControlParenLeft,
    TokenKind::ControlParenRight,
    TokenKind::ControlBracketLeft,
    TokenKind::ControlBracketRight,
    TokenKind::ControlChevronLeft,
    TokenKind::ControlChevronRight,
    TokenKind::ControlSemicolon,
    TokenKind::ControlFullStop,
    TokenKind::ControlComma,
    TokenKind::OperatorExclamationMark,
    TokenKind::OperatorQuestionMark,
    TokenKind::OperatorAmpersand,
    TokenKind::OperatorTilde,
    TokenKind::OperatorVerticalBar,
    TokenKind::OperatorEqual,
    TokenKind::OperatorColon,
    TokenKind::OperatorDoubleColon,
    TokenKind::OperatorArrow,
    TokenKind::AnnotationLine,
    TokenKind::AnnotationInline,
];

pub fn kind_by_name(n: &str) -> TokenKind {
    *KINDS
        .iter()
        .find(|k| format!("{k:?}") == n)
        .unwrap_or_else(|| panic!("harness: unknown token kind {n}"))
}

/// Expected relation between the token value and the source slice.
fn value_matches(kind: TokenKind, value: &TokenValue, slice: &str, list: &TokenList<Token>) -> bool {
    use oal_model::lexicon::Interner;
    match value {
        TokenValue::Symbol(sym) => {
            let s = list.resolve(*sym);
            match kind {
                TokenKind::LiteralString | TokenKind::AnnotationInline => {
                    slice.len() >= 2 && s == &slice[1..slice.len() - 1]
                }
                TokenKind::AnnotationLine | TokenKind::PathElementSegment | TokenKind::Property => {
                    !slice.is_empty() && s == &slice[1..]
                }
                _ => s == slice,
            }
        }
        TokenValue::Number(n) => slice.parse::<u64>().ok() == Some(*n),
        TokenValue::HttpStatus(_) => slice.len() == 3 && slice.ends_with("XX"),
        TokenValue::None => true,
    }
}

fn tokens_json(list: &TokenList<Token>, text: &str) -> Vec<Value> {
    let mut out = Vec::new();
    let mut s = list.head();
    while s.is_valid() {
        let (tok, span) = list.token_span(s);
        let ok_boundary = text.is_char_boundary(span.start().min(text.len()))
            && text.is_char_boundary(span.end().min(text.len()))
            && span.end() <= text.len();
        let text_ok = ok_boundary
            && value_matches(tok.kind(), tok.value(), &text[span.range()], list);
        out.push(json!([
            format!("{:?}", tok.kind()),
            span.start(),
            span.end(),
            Token::is_trivia(tok.kind()),
            text_ok
        ]));
        s = list.advance(s);
    }
    out
}

/// {"text"} -> tokens and lexical errors
pub fn lex(case: &Value) -> Value {
    let text = case["text"].as_str().unwrap();
    let (list, errs) = tokenize(loc("file:///m.oal"), text);
    let list = list.expect("token list");
    let errors: Vec<Value> = errs
        .iter()
        .map(|e| json!([e.span().start(), e.span().end()]))
        .collect();
    json!({"outcome": "ok", "tokens": tokens_json(&list, text), "errors": errors,
           "end": list.end(), "len": text.len(),
           "boundaries": text.char_indices().map(|(i, _)| i).chain(std::iter::once(text.len())).collect::<Vec<_>>()})
}

struct Dump<'a> {
    start2idx: &'a HashMap<usize, usize>,
    spans: Vec<Value>,
    nodes: usize,
}

fn dump<T: oal_model::grammar::Core>(n: NodeRef<'_, T, Gram>, d: &mut Dump) -> Value {
    d.nodes += 1;
    d.spans.push(match n.span() {
        Some(s) => json!([s.start(), s.end()]),
        None => Value::Null,
    });
    match n.syntax().trunk() {
        SyntaxTrunk::Leaf(_) => {
            let s = n.token().span().start();
            json!(d.start2idx.get(&s).copied().map(|i| i as i64).unwrap_or(-1))
        }
        SyntaxTrunk::Tree(k) => {
            let mut v = vec![Value::String(format!("{k:?}"))];
            for c in n.children() {
                v.push(dump(c, d));
            }
            Value::Array(v)
        }
        SyntaxTrunk::Error => json!(["Error!"]),
    }
}

fn start_index(list: &TokenList<Token>) -> HashMap<usize, usize> {
    let mut m = HashMap::new();
    let mut s = list.head();
    let mut i = 0;
    while s.is_valid() {
        let (_, span) = list.token_span(s);
        m.insert(span.start(), i);
        i += 1;
        s = list.advance(s);
    }
    m
}

fn tree_json<T: oal_model::grammar::Core>(
    tree: &SyntaxTree<T, Gram>,
    start2idx: &HashMap<usize, usize>,
) -> Value {
    let mut d = Dump {
        start2idx,
        spans: Vec::new(),
        nodes: 0,
    };
    let t = dump(tree.root(), &mut d);
    json!({"tree": t, "spans": d.spans, "nodes": d.nodes, "count": tree.count()})
}

type Entry = fn(&mut Context<(), Gram>, oal_model::lexicon::Cursor) -> oal_model::grammar::ParserResult<Gram>;

fn entry_by_name(n: &str) -> Entry {
    match n {
        "program" => parser::parse_program,
        "statement" => parser::parse_statement,
        "expression" => parser::parse_expression,
        "term" => parser::parse_term_kind,
        "content" => parser::parse_content,
        "transfer" => parser::parse_transfer,
        "declaration" => parser::parse_declaration,
        _ => panic!("harness: unknown entry {n}"),
    }
}

/// Runs one parser entry over a token list, the way `oal_syntax::parse` does, and
/// reports tree, end cursor, error and the H1 counters.
fn run_entry(list: TokenList<Token>, entry: Entry, nocache: bool) -> Value {
    let start2idx = start_index(&list);
    let ntok = list.len();
    let mut ctx: Context<(), Gram> = Context::new(list);
    if nocache {
        ctx = ctx.without_cache();
    }
    let cursor = ctx.head();
    let res = entry(&mut ctx, cursor);
    let (reads, hits, cache_len, arena) = ctx.verif_stats();
    let mut out = json!({"reads": reads, "hits": hits, "cache": cache_len, "arena": arena, "ntok": ntok});
    match res {
        Ok((s, root)) => {
            let end = if s.is_valid() {
                let sp = ctx.span(s);
                json!([sp.start(), sp.end()])
            } else {
                Value::Null
            };
            out["ok"] = json!(true);
            out["rest"] = end;
            match root {
                ParserMatch::Node(n) => {
                    let tree = ctx.tree().finalize(n);
                    let tj = tree_json(&tree, &start2idx);
                    out["tree"] = tj["tree"].clone();
                    out["spans"] = tj["spans"].clone();
                    out["nodes"] = tj["nodes"].clone();
                }
                ParserMatch::Token(t) => {
                    out["tree"] = json!({"token": format!("{:?}", t.kind())});
                }
                ParserMatch::Syntax(k) => {
                    out["tree"] = json!([format!("{k:?}")]);
                }
            }
        }
        Err(e) => {
            out["ok"] = json!(false);
            out["err"] = json!([e.to_string(), e.span().start(), e.span().end()]);
        }
    }
    out
}

fn errors_json(errs: &[oal_syntax::errors::Error]) -> Vec<Value> {
    errs.iter()
        .map(|e| match e {
            oal_syntax::errors::Error::Grammar(g) => {
                json!(["grammar", g.to_string(), g.span().start(), g.span().end()])
            }
            oal_syntax::errors::Error::Lexicon(l) => {
                json!(["lexicon", "", l.span().start(), l.span().end()])
            }
            oal_syntax::errors::Error::Domain => json!(["domain", "", 0, 0]),
        })
        .collect()
}

/// {"text", "uncached":bool} -> public `oal_syntax::parse` result, plus cached (and optionally
/// uncached) run of `parse_program` with counters.
pub fn parse(case: &Value) -> Value {
    let text = case["text"].as_str().unwrap();
    let l = loc("file:///m.oal");
    let (list, lerrs) = tokenize(l.clone(), text);
    let list = list.expect("token list");
    let toks = tokens_json(&list, text);
    let start2idx = start_index(&list);
    let lex_errors: Vec<Value> = lerrs
        .iter()
        .map(|e| json!([e.span().start(), e.span().end()]))
        .collect();
    let end = list.end();
    let cached = run_entry(list, parser::parse_program, false);
    let mut out = json!({"outcome": "ok", "tokens": toks, "lex_errors": lex_errors, "end": end,
        "len": text.len(), "cached": cached,
        "boundaries": text.char_indices().map(|(i, _)| i).chain(std::iter::once(text.len())).collect::<Vec<_>>()});
    if case["uncached"].as_bool().unwrap_or(false) {
        let (list2, _) = tokenize(l.clone(), text);
        out["uncached"] = run_entry(list2.unwrap(), parser::parse_program, true);
    }
    // the public entry point
    let (tree, errs) = oal_syntax::parse::<_, ()>(l, text);
    out["errors"] = Value::Array(errors_json(&errs));
    out["public"] = match tree {
        Some(t) => tree_json(&t, &start2idx),
        None => Value::Null,
    };
    out
}

/// {"kinds":[..], "entry":"program", "uncached":bool}
pub fn parse_kinds(case: &Value) -> Value {
    let kinds: Vec<TokenKind> = case["kinds"]
        .as_array()
        .unwrap()
        .iter()
        .map(|k| kind_by_name(k.as_str().unwrap()))
        .collect();
    let entry = entry_by_name(case["entry"].as_str().unwrap_or("program"));
    let build = || {
        let mut l = TokenList::new(loc("file:///m.oal"));
        for (i, k) in kinds.iter().enumerate() {
            l.push(Token::new(*k, TokenValue::None), i..i + 1);
        }
        l
    };
    let cached = run_entry(build(), entry, false);
    let mut out = json!({"outcome": "ok", "cached": cached});
    if case["uncached"].as_bool().unwrap_or(true) {
        out["uncached"] = run_entry(build(), entry, true);
    }
    out
}

/// {"kinds":[..], "entry"} -> only the uncached run (may be exponential; the driver applies a timeout)
pub fn parse_kinds_uncached(case: &Value) -> Value {
    let kinds: Vec<TokenKind> = case["kinds"]
        .as_array()
        .unwrap()
        .iter()
        .map(|k| kind_by_name(k.as_str().unwrap()))
        .collect();
    let entry = entry_by_name(case["entry"].as_str().unwrap_or("program"));
    let mut l = TokenList::new(loc("file:///m.oal"));
    for (i, k) in kinds.iter().enumerate() {
        l.push(Token::new(*k, TokenValue::None), i..i + 1);
    }
    json!({"outcome": "ok", "uncached": run_entry(l, entry, true)})
}
