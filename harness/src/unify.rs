use crate::misc::loc;
use oal_compiler::verif::{reduce, FuncTag, InferenceSet, Seq, Tag};
use serde_json::{json, Value};

pub fn tag_from(v: &Value, vars: &[Tag]) -> Tag {
    if let Some(s) = v.as_str() {
        return match s {
            "Text" => Tag::Text,
            "Number" => Tag::Number,
            "Status" => Tag::Status,
            "Primitive" => Tag::Primitive,
            "Relation" => Tag::Relation,
            "Object" => Tag::Object,
            "Content" => Tag::Content,
            "Transfer" => Tag::Transfer,
            "Array" => Tag::Array,
            "Uri" => Tag::Uri,
            "Any" => Tag::Any,
            _ => panic!("harness: unknown tag {s}"),
        };
    }
    if let Some(i) = v.get("v") {
        return vars[i.as_u64().unwrap() as usize].clone();
    }
    if let Some(t) = v.get("p") {
        return Tag::Property(Box::new(tag_from(t, vars)));
    }
    if let Some(f) = v.get("f") {
        let bindings = f[0]
            .as_array()
            .unwrap()
            .iter()
            .map(|b| tag_from(b, vars))
            .collect();
        let range = Box::new(tag_from(&f[1], vars));
        return Tag::Func(FuncTag { bindings, range });
    }
    panic!("harness: bad tag {v}")
}

pub fn tag_to(t: &Tag, vars: &[Tag]) -> Value {
    match t {
        Tag::Text => json!("Text"),
        Tag::Number => json!("Number"),
        Tag::Status => json!("Status"),
        Tag::Primitive => json!("Primitive"),
        Tag::Relation => json!("Relation"),
        Tag::Object => json!("Object"),
        Tag::Content => json!("Content"),
        Tag::Transfer => json!("Transfer"),
        Tag::Array => json!("Array"),
        Tag::Uri => json!("Uri"),
        Tag::Any => json!("Any"),
        Tag::Property(p) => json!({"p": tag_to(p, vars)}),
        Tag::Func(f) => {
            json!({"f": [f.bindings.iter().map(|b| tag_to(b, vars)).collect::<Vec<_>>(), tag_to(&f.range, vars)]})
        }
        Tag::Var(_) => match vars.iter().position(|v| v == t) {
            Some(i) => json!({"v": i}),
            None => json!({"v": -1}),
        },
    }
}

/// {"eqs":[[l,r]..], "nvars":n} -> per prefix: verdict and the reduced tag of every variable
pub fn unify(case: &Value) -> Value {
    let nvars = case["nvars"].as_u64().unwrap() as usize;
    let mut seq = Seq::new(loc("file:///m.oal"));
    let vars: Vec<Tag> = (0..nvars).map(|_| Tag::Var(seq.next())).collect();
    let eqs: Vec<(Tag, Tag)> = case["eqs"]
        .as_array()
        .unwrap()
        .iter()
        .map(|e| (tag_from(&e[0], &vars), tag_from(&e[1], &vars)))
        .collect();
    let mut steps = Vec::new();
    for k in 1..=eqs.len() {
        let mut set = InferenceSet::new();
        for (l, r) in eqs[..k].iter() {
            set.push(l.clone(), r.clone(), None);
        }
        match crate::guarded(|| set.unify()) {
            Ok(Ok(sets)) => {
                let red: Vec<Value> = vars
                    .iter()
                    .map(|v| match crate::guarded(|| reduce(&sets, v)) {
                        Ok(t) => tag_to(&t, &vars),
                        Err(e) => crate::panic_json(e),
                    })
                    .collect();
                steps.push(json!({"verdict": "ok", "reduced": red}));
            }
            Ok(Err(e)) => {
                steps.push(json!({"verdict": "err", "msg": e.to_string(), "kind": format!("{:?}", e.kind)}));
            }
            Err(p) => {
                steps.push(json!({"verdict": "panic", "panic": crate::panic_json(p)}));
            }
        }
    }
    json!({"outcome": "ok", "steps": steps})
}
