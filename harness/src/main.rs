//! `oalv` — conformance harness binding the TLA+ specifications to the real oal code.
//!
//! Every subcommand reads one JSON case per line on stdin and writes exactly one JSON
//! line per case on stdout (flushed), so that the driver can attribute a process abort
//! (stack overflow, abort()) to the case that follows the last line it received.
//! A panic of the code under test is *data*: it is caught and reported as
//! `{"outcome":"panic","msg":..,"at":..}`.

mod abs;
mod compile;
mod lex;
mod load;
mod merge;
mod misc;
mod tree2ast;
mod unify;

use serde_json::{json, Value};
use std::cell::RefCell;
use std::io::{BufRead, Write};
use std::panic::{catch_unwind, AssertUnwindSafe};

thread_local! {
    static LAST_PANIC: RefCell<Option<(String, String)>> = const { RefCell::new(None) };
}

/// Runs `f`, converting a panic into `Err((message, location))`.
pub fn guarded<T>(f: impl FnOnce() -> T) -> Result<T, (String, String)> {
    LAST_PANIC.with(|p| *p.borrow_mut() = None);
    match catch_unwind(AssertUnwindSafe(f)) {
        Ok(v) => Ok(v),
        Err(_) => Err(LAST_PANIC
            .with(|p| p.borrow_mut().take())
            .unwrap_or_else(|| ("unknown panic".into(), "?".into()))),
    }
}

pub fn panic_json(e: (String, String)) -> Value {
    json!({"outcome": "panic", "msg": e.0, "at": e.1})
}

type Handler = fn(&Value) -> Value;

fn handler(name: &str) -> Option<Handler> {
    Some(match name {
        "unicode" => misc::unicode,
        "charspan" => misc::charspan,
        "wasm" => misc::wasm,
        "lsptext" => misc::lsptext,
        "lex" => lex::lex,
        "parse" => lex::parse,
        "parse-kinds" => lex::parse_kinds,
        "parse-kinds-uncached" => lex::parse_kinds_uncached,
        "unify" => unify::unify,
        "load" => load::load,
        "compile" => compile::compile,
        "merge" => merge::merge,
        "tree2ast" => tree2ast::tree2ast,
        _ => return None,
    })
}

fn install_hook() {
    std::panic::set_hook(Box::new(|info| {
        let msg = if let Some(s) = info.payload().downcast_ref::<&str>() {
            (*s).to_owned()
        } else if let Some(s) = info.payload().downcast_ref::<String>() {
            s.clone()
        } else {
            "non-string panic".to_owned()
        };
        let at = info
            .location()
            .map(|l| format!("{}:{}", l.file(), l.line()))
            .unwrap_or_default();
        LAST_PANIC.with(|p| *p.borrow_mut() = Some((msg, at)));
    }));
}

fn main() {
    let args: Vec<String> = std::env::args().collect();
    let Some(h) = args.get(1).and_then(|n| handler(n)) else {
        eprintln!("usage: oalv <subcommand>  (ndjson on stdin, ndjson on stdout)");
        std::process::exit(2);
    };
    if args.get(1).map(String::as_str) == Some("wasm") {
        // the playground entry point installs its own panic hook once; let it do so first
        let _ = oal_wasm::compile("");
    }
    install_hook();
    // The CLI and the language server run on a main thread with the default 8 MiB stack;
    // cases run on a thread of that size so that depth-related aborts are comparable.
    let stack = std::env::var("OALV_STACK_MB")
        .ok()
        .and_then(|s| s.parse::<usize>().ok())
        .unwrap_or(8);
    let worker = std::thread::Builder::new()
        .stack_size(stack * 1024 * 1024)
        .spawn(move || {
            let stdin = std::io::stdin();
            let stdout = std::io::stdout();
            for line in stdin.lock().lines() {
                let line = line.expect("stdin");
                if line.trim().is_empty() {
                    continue;
                }
                let out = match serde_json::from_str::<Value>(&line) {
                    // "own_thread": the case runs on a thread of its own (C06: the output must not depend on the thread)
                    Ok(case) if case.get("own_thread").and_then(Value::as_bool) == Some(true) => {
                        std::thread::Builder::new()
                            .stack_size(stack * 1024 * 1024)
                            .spawn(move || match guarded(|| h(&case)) {
                                Ok(v) => v,
                                Err(e) => panic_json(e),
                            })
                            .unwrap()
                            .join()
                            .unwrap_or_else(|_| json!({"outcome": "panic", "msg": "thread died"}))
                    }
                    Ok(case) => match guarded(|| h(&case)) {
                        Ok(v) => v,
                        Err(e) => panic_json(e),
                    },
                    Err(e) => json!({"outcome": "bad-case", "msg": e.to_string()}),
                };
                let mut o = stdout.lock();
                serde_json::to_writer(&mut o, &out).unwrap();
                o.write_all(b"\n").unwrap();
                o.flush().unwrap();
            }
        })
        .unwrap();
    worker.join().unwrap();
}
