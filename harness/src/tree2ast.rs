//! Abstraction of the concrete syntax tree to the abstract syntax of spec/Ast.tla
//! (uniform nodes {k, s, q, n, a}); parentheses and the Terminal wrapper are transparent.

use crate::misc::loc;
use oal_model::grammar::{AbstractSyntaxNode, NodeRef, SyntaxTrunk};
use oal_syntax::lexer::TokenKind;
use oal_syntax::parser::{self as syn, Gram, SyntaxKind};
use serde_json::{json, Value};

type N<'a> = NodeRef<'a, (), Gram>;

fn node(k: &str, s: &str, q: &str, n: usize, a: Vec<Value>) -> Value {
    json!({"k": k, "s": s, "q": q, "n": n, "a": a})
}

fn leaf_kind(n: N) -> Option<TokenKind> {
    match n.syntax().trunk() {
        SyntaxTrunk::Leaf(t) => Some(t.kind()),
        _ => None,
    }
}

fn tree_kind(n: N) -> Option<SyntaxKind> {
    match n.syntax().trunk() {
        SyntaxTrunk::Tree(k) => Some(*k),
        _ => None,
    }
}

fn slice<'a>(text: &'a str, n: N) -> &'a str {
    match n.span() {
        Some(s) => &text[s.range()],
        None => "",
    }
}

fn anns(text: &str, n: N, out: &mut Vec<Value>) {
    for c in n.children() {
        match leaf_kind(c) {
            Some(TokenKind::AnnotationLine) => out.push(json!({"w": "line", "t": c.as_str()})),
            Some(TokenKind::AnnotationInline) => out.push(json!({"w": "inline", "t": c.as_str()})),
            _ => {
                if tree_kind(c) == Some(SyntaxKind::Annotations) {
                    anns(text, c, out);
                }
            }
        }
    }
}

fn with_anns(mut v: Value, a: Vec<Value>) -> Value {
    if !a.is_empty() {
        let mut cur = v
            .get("ann")
            .and_then(Value::as_array)
            .cloned()
            .unwrap_or_default();
        let mut all = a;
        all.append(&mut cur);
        v["ann"] = Value::Array(all);
    }
    v
}

pub fn expr(text: &str, n: N) -> Value {
    if let Some(k) = leaf_kind(n) {
        return match k {
            TokenKind::PrimitiveNum => node("prim", "num", "", 0, vec![]),
            TokenKind::PrimitiveStr => node("prim", "str", "", 0, vec![]),
            TokenKind::PrimitiveUri => node("prim", "uri", "", 0, vec![]),
            TokenKind::PrimitiveBool => node("prim", "bool", "", 0, vec![]),
            TokenKind::PrimitiveInt => node("prim", "int", "", 0, vec![]),
            TokenKind::LiteralNumber => node("lit", "num", slice(text, n), 0, vec![]),
            TokenKind::LiteralString => node("lit", "str", n.as_str(), 0, vec![]),
            TokenKind::LiteralHttpStatus => node("lit", "status", slice(text, n), 0, vec![]),
            k => node("token", &format!("{k:?}"), "", 0, vec![]),
        };
    }
    let Some(kind) = tree_kind(n) else {
        return node("error", "", "", 0, vec![]);
    };
    let kids: Vec<N> = n.children().collect();
    match kind {
        SyntaxKind::Terminal => {
            let mut a = Vec::new();
            anns(text, n, &mut a);
            let inner = kids
                .iter()
                .find(|c| {
                    !(tree_kind(**c) == Some(SyntaxKind::Annotations)
                        || leaf_kind(**c) == Some(TokenKind::AnnotationInline))
                })
                .copied();
            match inner {
                Some(i) => with_anns(expr(text, i), a),
                None => node("error", "empty terminal", "", 0, vec![]),
            }
        }
        SyntaxKind::SubExpression => expr(text, kids[1]),
        SyntaxKind::Variable => {
            if kids.len() > 1 {
                node("var", kids[2].as_str(), kids[0].as_str(), 0, vec![])
            } else {
                node("var", kids[0].as_str(), "", 0, vec![])
            }
        }
        SyntaxKind::Object => {
            let items = if kids.len() > 1 && tree_kind(kids[1]) == Some(SyntaxKind::PropertyList) {
                kids[1].children().step_by(2).map(|c| expr(text, c)).collect()
            } else {
                vec![]
            };
            node("obj", "", "", 0, items)
        }
        SyntaxKind::Property => {
            let name = kids[0].as_str();
            let mark = if kids.len() > 2 {
                match leaf_kind(kids[1]) {
                    Some(TokenKind::OperatorExclamationMark) => 1,
                    Some(TokenKind::OperatorQuestionMark) => 2,
                    _ => 0,
                }
            } else {
                0
            };
            node("prop", name, "", mark, vec![expr(text, *kids.last().unwrap())])
        }
        SyntaxKind::Array => node("arr", "", "", 0, vec![expr(text, kids[1])]),
        SyntaxKind::VariadicOp => {
            let op = slice(text, kids[1]).to_owned();
            node("op", &op, "", 0, kids.iter().step_by(2).map(|c| expr(text, *c)).collect())
        }
        SyntaxKind::UnaryOp => node("un", slice(text, kids[1]), "", 0, vec![expr(text, kids[0])]),
        SyntaxKind::Content => {
            let mut metas = Vec::new();
            let mut body = Vec::new();
            for c in kids.iter() {
                match tree_kind(*c) {
                    Some(SyntaxKind::ContentMetaList) => {
                        for m in c.children().filter(|m| tree_kind(*m) == Some(SyntaxKind::ContentMeta)) {
                            let mk: Vec<N> = m.children().collect();
                            metas.push(node("meta", slice(text, mk[0]), "", 0, vec![expr(text, mk[2])]));
                        }
                    }
                    Some(SyntaxKind::ContentBody) => body.push(expr(text, c.first())),
                    _ => {}
                }
            }
            let n = metas.len();
            metas.append(&mut body);
            node("cnt", "", "", n, metas)
        }
        SyntaxKind::UriTemplate => {
            let mut a = Vec::new();
            for s in kids[0].children() {
                match leaf_kind(s) {
                    Some(TokenKind::PathElementRoot) => a.push(node("seg", "", "", 0, vec![])),
                    Some(TokenKind::PathElementSegment) => a.push(node("seg", s.as_str(), "", 0, vec![])),
                    _ => {
                        if tree_kind(s) == Some(SyntaxKind::UriVariable) {
                            a.push(node("uvar", "", "", 0, vec![expr(text, s.nth(2))]));
                        }
                    }
                }
            }
            let mut has = 0;
            if kids.len() > 1 {
                has = 1;
                a.push(expr(text, kids[1].nth(1)));
            }
            node("uri", "", "", has, a)
        }
        SyntaxKind::Relation => {
            let mut a = vec![expr(text, kids[0])];
            for x in kids[2].children().step_by(2) {
                a.push(expr(text, x));
            }
            node("rel", "", "", 0, a)
        }
        SyntaxKind::Transfer => {
            let methods: Vec<String> = kids[0]
                .children()
                .filter(|c| leaf_kind(*c).map(|k| k.is_method()).unwrap_or(false))
                .map(|c| slice(text, c).to_owned())
                .collect();
            let mut a = Vec::new();
            let mut flags = 0;
            if let Some(o) = kids[1].children().next() {
                flags |= 1;
                a.push(expr(text, o));
            }
            if let Some(d) = kids[2].children().nth(1) {
                flags |= 2;
                a.push(expr(text, d));
            }
            a.push(expr(text, kids[4]));
            node("xfer", &methods.join(","), "", flags, a)
        }
        SyntaxKind::Application => node("app", "", "", 0, kids.iter().map(|c| expr(text, *c)).collect()),
        SyntaxKind::Recursion => node("rec", kids[1].first().as_str(), "", 0, vec![expr(text, kids[2])]),
        k => node("unexpected", &format!("{k:?}"), "", 0, vec![]),
    }
}

pub fn statements(text: &str, root: N) -> Vec<Value> {
    let mut out = Vec::new();
    for st in root.children() {
        let kids: Vec<N> = st.children().collect();
        match tree_kind(st) {
            Some(SyntaxKind::Import) => {
                let q = kids[2]
                    .children()
                    .nth(1)
                    .map(|i| i.as_str().to_owned())
                    .unwrap_or_default();
                out.push(node("use", kids[1].as_str(), &q, 0, vec![]));
            }
            Some(SyntaxKind::Declaration) => {
                let d = syn::Declaration::cast(st).unwrap();
                let mut a: Vec<Value> = d
                    .bindings()
                    .map(|b| node("bind", b.ident().as_ref(), "", 0, vec![]))
                    .collect();
                let np = a.len();
                a.push(expr(text, d.rhs()));
                let mut an = Vec::new();
                anns(text, kids[0], &mut an);
                if leaf_kind(kids[0]) == Some(TokenKind::AnnotationLine) {
                    an.push(json!({"w": "line", "t": kids[0].as_str()}));
                }
                let q = if d.ident().is_reference() { "@" } else { "" };
                out.push(with_anns(node("decl", d.ident().as_ref(), q, np, a), an));
            }
            Some(SyntaxKind::Resource) => out.push(node("res", "", "", 0, vec![expr(text, kids[1])])),
            k => out.push(node("unexpected", &format!("{k:?}"), "", 0, vec![])),
        }
    }
    out
}

/// {"text"} -> {"ast": [statements], "errors": n}
pub fn tree2ast(case: &Value) -> Value {
    let text = case["text"].as_str().unwrap();
    let (tree, errs) = oal_syntax::parse::<_, ()>(loc("file:///m.oal"), text);
    match tree {
        Some(t) => json!({"outcome": "ok", "ast": statements(text, t.root()), "errors": errs.len()}),
        None => json!({"outcome": "ok", "ast": Value::Null, "errors": errs.len()}),
    }
}
