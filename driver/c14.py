"""C14 — a base description is preserved; only paths and schema components are replaced.

(S) TLC: Merge.tla — Builder::into_openapi as a state machine over every abstract base
    (each top-level field and each component kind absent or present, components object
    absent or present, base with and without its own paths and schemas) x programs with
    and without paths and schemas: Frame, FromProgram, FrameAlways, Terminates.
(O) every abstract (base, program) pair (a seeded sample in the quick tier) is realised as a
    concrete YAML base and an Oxlip program, merged by the real Builder (in process) and by
    the real oal-cli --base; the output is abstracted back field by field and must equal the
    specification's output record; Frame and FromProgram are also evaluated directly on the
    concrete documents.
"""
import json
import os
import random
import shutil
import subprocess

import common
from common import Check, run_tlc, run_oalv_parallel, workdir

TOP = {
    # the version string the base declares is the base's, whatever revision the emitter itself would write
    "openapi": {"v1": "3.0.1", "v2": "3.0.0"},
    "info": {"v1": {"title": "Base One", "version": "1.0"},
             "v2": {"title": "Base Two", "version": "2.0", "description": "second", "contact": {"name": "c"}}},
    "servers": {"v1": [{"url": "https://a.example"}],
                "v2": [{"url": "https://a.example"}, {"url": "https://b.example", "description": "b"}]},
    "security": {"v1": [{"key": []}, {}]},          # the empty requirement (authentication optional) is an entry like any other
    "tags": {"v1": [{"name": "t1", "description": "tag one"}]},
    "externalDocs": {"v1": {"url": "https://docs.example", "description": "docs"}},
    "extensions": {"v1": {"x-base": {"a": 1, "b": ["c"]}}},
    # the base has paths of its own, among them the very keys the programs define (`/`, `/s`, `/audit`) with other content
    "paths": {"v1": {"/base": {"get": {"operationId": "base-get", "responses": {"200": {"description": "ok"}}}},
                     "/": {"summary": "stale", "delete": {"operationId": "stale-root", "responses": {"418": {"description": "stale"}}}},
                     "/s": {"get": {"operationId": "stale-s", "responses": {"418": {"description": "stale"}}}},
                     "/audit": {"post": {"operationId": "stale-audit", "responses": {"418": {"description": "stale"}}}}}},
}
COMP = {
    "schemas": {"v1": {"BaseSchema": {"type": "string"}}},
    "responses": {"v1": {"R": {"description": "r"}}},
    "parameters": {"v1": {"P": {"name": "p", "in": "query", "schema": {"type": "string"}, "style": "form"}}},
    "examples": {"v1": {"E": {"summary": "e", "value": 1}}},
    "requestBodies": {"v1": {"B": {"content": {"text/plain": {}}}}},
    "headers": {"v1": {"H": {"schema": {"type": "string"}, "style": "simple"}}},
    "securitySchemes": {"v1": {"key": {"type": "apiKey", "name": "k", "in": "header"}}},
    "links": {"v1": {"L": {"operationId": "base-get"}}},
    "callbacks": {"v1": {"C": {"{$request.body#/u}": {"post": {"responses": {"200": {"description": "ok"}}}}}}},
    "extensions": {"v1": {"x-comp": 1}},
}
PROGRAMS = {
    "empty": "// nothing\n",
    "paths": "res / on get -> <{}>;\n",
    "schemas": "let @a = { 'x num };\nres /s on get -> <@a>;\n",
    "tagged": ("# description: \"an item\"\nlet @item = { 'id! int, 'name str } `title: \"Item\"`;\n"
               "# tags: [pets, internal, t1]\n# summary: \"list\"\n# operationId: \"listItems\"\nlet list = get { 'limit int } -> <status=200, headers={ 'X-Total int }, [@item]> `description: \"the items\"`;\n"
               "# tags: [audit]\n# description: \"audit trail\"\nlet audit = get -> <status=200, media=\"text/plain\", str> :: <status=4XX, {}>;\n"
               "res /items/{ 'shop str }?{ 'q str } on list, post : <@item> -> <status=201, @item>;\nres /audit on audit;\n"),
}


def realise(base):
    """abstract base record -> concrete OpenAPI document (dict)"""
    doc = {"openapi": "3.0.3"}
    for f, v in base["top"].items():
        if v == "absent":
            continue
        if f == "extensions":
            doc.update(TOP[f][v])
        else:
            doc[f] = TOP[f][v]
    if "paths" not in doc:
        doc["paths"] = {}
    comp = base["comp"]
    if comp["present"] == "yes":
        c = {}
        for f, v in comp.items():
            if f == "present" or v == "absent":
                continue
            if f == "extensions":
                c.update(COMP[f][v])
            else:
                c[f] = COMP[f][v]
        doc["components"] = c
    return doc


def empty(v):
    return v is None or v == {} or v == []


def label(v, table, plain=None):
    if empty(v):
        return "absent"
    for k, tv in table.items():
        if v == tv:
            return k
    if plain is not None and v == plain:
        return "prog"
    return "other:" + json.dumps(v, sort_keys=True)[:120]


def abstract(doc, plain):
    top = {}
    for f in TOP:
        if f == "extensions":
            ext = {k: v for k, v in doc.items() if k.startswith("x-")}
            top[f] = label(ext, TOP[f])
        elif f == "paths":
            top[f] = label(doc.get("paths"), {}, plain.get("paths"))
        else:
            top[f] = label(doc.get(f), TOP[f])
    comp = {}
    c = doc.get("components") or {}
    pc = plain.get("components") or {}
    for f in COMP:
        if f == "extensions":
            ext = {k: v for k, v in c.items() if k.startswith("x-")}
            comp[f] = label(ext, COMP[f])
        elif f == "schemas":
            comp[f] = label(c.get("schemas"), {}, pc.get("schemas"))
        else:
            comp[f] = label(c.get(f), COMP[f])
    return top, comp


def compare(chk, case, basedoc, obs, via):
    if obs.get("outcome") != "ok" or obs.get("result") != "ok":
        chk.violation("C14|merge-failed|%s" % (obs.get("result") or obs.get("outcome")),
                      "merging program %s with a base fails (%s): %s" % (case["prog"], via, json.dumps(obs)[:300]),
                      {"case": case, "base": basedoc, "obs": obs})
        return
    merged = obs["merged_yaml_back"]
    plain = obs["plain"]
    top, comp = abstract(merged, plain)
    want = case["out"]
    payload = {"case": case, "base": basedoc, "program": PROGRAMS[case["prog"]], "merged": merged, "via": via}
    for f, v in want["top"].items():
        got = top[f]
        if got != v:
            kind = "from-program" if f == "paths" else "frame"
            chk.violation("C14|%s|%s" % (kind, f), "field %s of the output is %s, specification says %s (base %s, program %s, via %s)" % (
                f, got, v, case["base"]["top"].get(f), case["prog"], via), payload)
    for f, v in want["comp"].items():
        if f == "present":
            continue
        got = comp[f]
        if got != v:
            kind = "from-program" if f == "schemas" else "frame"
            chk.violation("C14|%s|components.%s" % (kind, f), "components.%s of the output is %s, specification says %s (program %s, via %s)" % (
                f, got, v, case["prog"], via), payload)
    # the property itself on the concrete documents
    for k, v in basedoc.items():
        if k in ("paths", "components"):
            continue
        if merged.get(k) != v and not (empty(merged.get(k)) and empty(v)):
            chk.violation("C14|frame|%s" % k, "top-level %s differs from the base (via %s)" % (k, via), payload)
    for k, v in (basedoc.get("components") or {}).items():
        if k == "schemas":
            continue
        mv = (merged.get("components") or {}).get(k)
        if mv != v and not (empty(mv) and empty(v)):
            chk.violation("C14|frame|components.%s" % k, "components.%s differs from the base (via %s)" % (k, via), payload)
    if (merged.get("paths") or {}) != (plain.get("paths") or {}):
        chk.violation("C14|from-program|paths", "paths are not those of the program alone (via %s)" % via, payload)
    ms = (merged.get("components") or {}).get("schemas") or {}
    ps = (plain.get("components") or {}).get("schemas") or {}
    if ms != ps:
        chk.violation("C14|from-program|components.schemas", "schema components are not those of the program alone (via %s)" % via, payload)


def run_cli(chk, sample):
    """the same through the real oal-cli --base"""
    common.build_bins()
    import yaml  # PyYAML is present in the system python3; used only to read the CLI output
    d = workdir("cli14")
    n = 0
    for case in sample:
        basedoc = realise(case["base"])
        with open(os.path.join(d, "base.yaml"), "w") as f:
            json.dump(basedoc, f)       # JSON is YAML
        with open(os.path.join(d, "main.oal"), "w") as f:
            f.write(PROGRAMS[case["prog"]])
        for name in ("out.yaml", "plain.yaml"):
            try:
                os.remove(os.path.join(d, name))
            except OSError:
                pass
        p1 = subprocess.run([common.OAL_CLI, "-m", "main.oal", "-t", "out.yaml", "-b", "base.yaml"], cwd=d,
                            stdout=subprocess.PIPE, stderr=subprocess.PIPE, text=True, timeout=60)
        p2 = subprocess.run([common.OAL_CLI, "-m", "main.oal", "-t", "plain.yaml"], cwd=d,
                            stdout=subprocess.PIPE, stderr=subprocess.PIPE, text=True, timeout=60)
        if p1.returncode != 0 or p2.returncode != 0:
            chk.violation("C14|cli-failed", "oal-cli fails with a base: exit %d/%d %s" % (p1.returncode, p2.returncode, p1.stderr[-300:]),
                          {"case": case, "base": basedoc, "stderr": p1.stderr[-1000:]})
            continue
        merged = yaml.safe_load(open(os.path.join(d, "out.yaml")))
        plain = yaml.safe_load(open(os.path.join(d, "plain.yaml")))
        compare(chk, case, basedoc, {"outcome": "ok", "result": "ok", "merged_yaml_back": merged, "plain": plain}, "oal-cli")
        n += 1
    shutil.rmtree(d, ignore_errors=True)
    return n


def run(tier):
    chk = Check("C14", tier)
    rng = random.Random(common.seed())
    common.build_harness()
    cfg = "Merge_quick.cfg" if tier == "quick" else "Merge_thorough.cfg"
    r = run_tlc("Merge", cfg, workers=8 if tier == "quick" else 16, timeout=3000, xmx="16g")
    chk.add_tlc(r)
    if not r.ok:
        chk.violation("C14|design", "Merge.tla violates an invariant", {"tlc": r.violation})
    cases = r.cases
    n_all = len(cases)
    nrep = 1500 if tier == "quick" else 60000
    if len(cases) > nrep:
        cases = rng.sample(cases, nrep)
        chk.cov["exhaustive"] = False
    else:
        chk.cov["exhaustive"] = True
    hcases = []
    docs = []
    for c in cases:
        doc = realise(c["base"])
        docs.append(doc)
        hcases.append({"text": PROGRAMS[c["prog"]], "base": json.dumps(doc)})
    obs = run_oalv_parallel("merge", hcases, jobs=12)
    nontrivial = 0
    for c, doc, o in zip(cases, docs, obs):
        if o.get("outcome") == "skipped":
            continue
        compare(chk, c, doc, o, "Builder")
        if c["base"]["comp"]["present"] == "yes" or c["base"]["top"]["paths"] != "absent":
            nontrivial += 1
    ncli = run_cli(chk, rng.sample(cases, min(len(cases), 40 if tier == "quick" else 1500)))
    chk.cov["evaluations"] = len(cases) + ncli
    chk.cov["distinct_nontrivial"] = nontrivial
    chk.cov["traces_validated_against_impl"] = len(cases) + ncli
    chk.cov["rule"] = ("TLC enumerates every abstract base (fields absent/present, components object absent/present, base paths and schemas "
                       "absent/present) x 4 programs (%d pairs); %d pairs are realised and merged by the real Builder, %d also by oal-cli; "
                       "non-trivial = the base has a components object or paths of its own; pairs are distinct records" % (n_all, len(cases), ncli))
    if cases:
        chk.sample({"abstract_base": cases[0]["base"], "program": PROGRAMS[cases[0]["prog"]], "expected_out": cases[0]["out"]})
    chk.assumptions = [
        "an absent field and an empty object/list are the same description (the OpenAPI object model normalises them)",
        "bases are valid OpenAPI 3.0 documents whose retained parts do not $ref schemas, written in the normal form of the OpenAPI object model (defaults such as style: form / style: simple explicit), so that carrying a part over unchanged is textual identity",
        "the concrete realisation of the abstract field values and the field-wise abstraction of the output are trusted",
    ]
    return chk.finish()


def replay(path):
    d = json.load(open(path))
    c = d["case"]
    common.build_harness()
    case = c["case"]
    doc = realise(case["base"])
    o = common.run_oalv("merge", [{"text": PROGRAMS[case["prog"]], "base": json.dumps(doc)}])[0]
    print("base:", json.dumps(doc))
    print("program:", PROGRAMS[case["prog"]])
    print("specification output:", json.dumps(case["out"]))
    print("real output:", json.dumps(o.get("merged_yaml_back")))
    return 0
