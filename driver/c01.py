"""C01 — accepted programs never go wrong (type soundness of the pipeline).

(S) TLC: EvalAbs.tla on top of Kinds.tla - an abstract interpreter of eval.rs in which values are
    variants and every cast_* is an explicit guard; for every member of the PosShape and FnPos
    families (every consuming position x every shape of value x every indirection: direct, let,
    @let, identity function, imported let, imported identity function; and a function - local or
    imported - whose parameter is consumed at each position) the outcome is predicted: rejected,
    ok, located error, crash(site, variant), divergence.  Sound = accepted => no crash.
(O) every member is rendered and pushed through the real load/compile/eval/emit; the real
    outcome class must be the predicted one (so every crash the specification predicts is
    confirmed on the real code and every real crash is explained by the specification); any
    panic/abort/hang of an accepted program is a violation of the property, matched against the
    known findings by (cast site, variant, context).
    Independently the same is asserted on the accepted members of the Scopes family and on the
    recursive declaration shapes.
"""
import json
import random

import common
import progs
from common import Check, run_tlc, run_oalv_parallel


def key_for(real, spec_case):
    site, var = progs.crash_signature(real.get("msg", ""))
    imported = False
    if spec_case is not None and spec_case["outcome"] == "CRASH":
        imported = len(spec_case["variant"]) > 2 and spec_case["variant"][2] not in ("", spec_case["prog"]["main"])
    if imported:
        return "C01|crash|imported-function-argument-kind"
    return "C01|crash|%s|%s" % (site, var)


def reference_chains():
    """aliases of aliases: a declaration whose value is another declaration's name, two and three links long, reference (@)
    and plain names mixed, consumed at every kind of position (judged by the property itself: accepted => no crash)"""
    values = {
        "obj": "{ 'X-Id str }", "uri": "/things", "urivar": "/things/{ 'id int }", "rel": "/r on get -> <>", "xfer": "get -> <>",
        "cnt": "<status=200, { 'a num }>", "prim": "num", "arr": "[str]", "rec": "rec x { 'k [x] }", "str": '"text/plain"', "status": "404",
        "prop": "'p num",
    }
    uses = [
        "res / on get -> <{N}>;", "res / on get -> <headers={N}, {}>;", "res / on get -> <media={N}, {}>;", "res / on get -> <status={N}, {}>;",
        "res {N} on get -> <>;", "res (concat {N} /x) on get -> <>;", "res (concat /x {N}) on get -> <>;", "res {N};", "res / on {N};",
        "res / on get -> {N};", "res / on put : {N} -> <>;", "res / on get -> <{N} & {}>;", "res / on get -> <{N} | num>;", "res / on get -> <[{N}]>;",
        "res / on get -> <{ 'q {N} }>;", "res / on get -> <{ {N} }>;", "res /a/{ {N} } on get -> <>;", "res / on get -> {N} :: <status=500, {}>;",
        "let f x = x; res / on get -> <f {N}>;", "res / on get { 'q {N} } -> <>;",
    ]
    chains = [["@a", "@b"], ["@a", "@b", "@c"], ["a", "@b"], ["@a", "b"], ["@a", "b", "@c"], ["a", "@b", "c"]]
    out = []
    for v in values.values():
        for ch in chains:
            decls = "let %s = %s;\n" % (ch[0], v) + "".join("let %s = %s;\n" % (ch[i], ch[i - 1]) for i in range(1, len(ch)))
            for u in uses:
                out.append(decls + u.replace("{N}", ch[-1]) + "\n")
    return out


def run(tier):
    chk = Check("C01", tier)
    rng = random.Random(common.seed())
    common.build_harness()
    cfg = "EvalAbs_quick.cfg" if tier == "quick" else "EvalAbs_thorough.cfg"
    r = run_tlc("EvalAbsMC", cfg, workers=8, timeout=1800, java_opts=["-Xss512m"])
    chk.add_tlc(r)
    if not r.ok:
        raise common.ToolError("EvalAbsMC failed: %s" % (r.violation or "")[:800])
    cases = []
    for i, c in enumerate(r.cases):
        hc, _ = progs.harness_case(c["prog"], style=(i + common.seed()) % 4)
        cases.append(hc)
    obs = run_oalv_parallel("compile", cases, jobs=8)
    counts = {}
    accepted = 0
    predicted_crashes = 0
    for c, hc, o in zip(r.cases, cases, obs):
        if o.get("outcome") == "skipped":
            continue
        real = progs.real_outcome(o)
        spec = c["outcome"]
        counts[(spec, real["k"])] = counts.get((spec, real["k"]), 0) + 1
        text = hc["files"][progs.B + "m1.oal"]
        payload = {"files": hc["files"], "family": [c["pos"], c["shape"], c["ind"]], "spec": {"outcome": spec, "site": c["site"], "variant": c["variant"]}, "real": real}
        if real["k"] in ("OK", "ERROR", "CRASH", "ABORT", "HANG"):
            accepted += 1
        if spec == "CRASH":
            predicted_crashes += 1
        # the property itself
        if real["k"] in ("CRASH", "ABORT", "HANG"):
            if real["k"] == "CRASH" and real.get("phase") == "load":
                chk.violation("C01|crash-in-compile|%s" % "|".join(progs.crash_signature(real["msg"])), "the compiler itself panics on %r" % text[:120], payload)
            else:
                key = key_for(real, c) if real["k"] == "CRASH" else "C01|%s" % real["k"].lower()
                chk.violation(key, "accepted program makes the back end %s (%s): %r" % (
                    "panic" if real["k"] == "CRASH" else real["k"].lower(), (real.get("msg") or "")[:80], text[:160]), payload)
        elif real["k"] == "ERROR" and not real.get("located"):
            chk.violation("C01|unlocated-error", "evaluation error without a location on %r" % text[:120], payload)
        # conformance of the model
        same = (spec == real["k"]) or (spec == "DIVERGE" and real["k"] in ("ABORT", "HANG"))
        if same and spec == "CRASH":
            same = progs.spec_crash_signature(c["site"], c["variant"]) == progs.crash_signature(real["msg"])
        if same:
            chk.cov["traces_validated_against_impl"] += 1
        else:
            chk.drift("C01|outcome|spec=%s real=%s" % (spec, real["k"]), "EvalAbs.tla predicts %s%s, the real pipeline gives %s%s on e.g. %r" % (
                spec, "(%s %s)" % (c["site"], c["variant"]) if spec == "CRASH" else "", real["k"],
                "(%s)" % (real.get("msg") or real.get("cls") or "")[:60], text[:120]))
    chk.cov["evaluations"] = len(cases)
    chk.cov["distinct_nontrivial"] = accepted
    chk.cov["exhaustive"] = True
    chk.notes["outcomes_spec_vs_real"] = {"%s/%s" % k: v for k, v in sorted(counts.items())}
    chk.notes["crashes_predicted_by_the_specification"] = predicted_crashes
    # independently: other families of accepted programs must not crash either
    import c04
    extra = c04.rec_shapes() + reference_chains()
    eo = run_oalv_parallel("compile", [{"main": progs.B + "m1.oal", "files": {progs.B + "m1.oal": t}, "want": {}} for t in extra], jobs=8)
    for t, o in zip(extra, eo):
        if o.get("outcome") == "skipped":
            continue
        real = progs.real_outcome(o)
        if real["k"] in ("CRASH", "ABORT", "HANG") and real.get("phase") != "load":
            key = key_for(real, None) if real["k"] == "CRASH" else "C01|%s" % real["k"].lower()
            chk.violation(key, "accepted program makes the back end %s: %r" % (real["k"].lower(), t[:160]), {"files": {progs.B + "m1.oal": t}, "real": real})
    chk.cov["evaluations"] += len(extra)
    # random composite programs judged by EvalAbs.tla in oracle mode (one initial state per program)
    import gen
    import oracle
    import render
    ps = gen.programs(common.seed() * 1000 + 1, 600 if tier == "quick" else 8000, p_bad=0.01)
    rps = [render.render_program(p, style=i % 4) for i, p in enumerate(ps)]
    oracle.crosscheck(ps, rps)
    es, rs = oracle.evalabs(ps, chunk=500)
    for r2 in rs:
        chk.add_tlc(r2)
    gcases = [{"main": rp["main"], "files": rp["files"], "want": {}} for rp in rps]
    gobs = run_oalv_parallel("compile", gcases, jobs=8)
    gcounts = {}
    for p, hc, o, e in zip(ps, gcases, gobs, es):
        if o.get("outcome") == "skipped" or e is None:
            continue
        real = progs.real_outcome(o)
        spec = e["outcome"]
        gcounts[(spec, real["k"])] = gcounts.get((spec, real["k"]), 0) + 1
        text = hc["files"][hc["main"]]
        payload = {"files": hc["files"], "family": ["composite", "", ""], "spec": {"outcome": spec, "site": e["site"], "variant": e["variant"]}, "real": real}
        if real["k"] in ("OK", "ERROR", "CRASH", "ABORT", "HANG"):
            accepted += 1
        if real["k"] in ("CRASH", "ABORT", "HANG"):
            if real["k"] == "CRASH" and real.get("phase") == "load":
                chk.violation("C01|crash-in-compile|%s" % "|".join(progs.crash_signature(real["msg"])), "the compiler itself panics on %r" % text[:120], payload)
            else:
                fake = {"outcome": spec, "variant": e["variant"], "prog": p}
                key = key_for(real, fake) if real["k"] == "CRASH" else "C01|%s" % real["k"].lower()
                chk.violation(key, "accepted program makes the back end %s (%s): %r" % (
                    "panic" if real["k"] == "CRASH" else real["k"].lower(), (real.get("msg") or "")[:80], text[:160]), payload)
        elif real["k"] == "ERROR" and not real.get("located"):
            chk.violation("C01|unlocated-error", "evaluation error without a location on %r" % text[:120], payload)
        same = (spec == real["k"]) or (spec == "DIVERGE" and real["k"] in ("ABORT", "HANG"))
        if same and spec == "CRASH":
            same = progs.spec_crash_signature(e["site"], e["variant"]) == progs.crash_signature(real["msg"])
        if same:
            chk.cov["traces_validated_against_impl"] += 1
        else:
            chk.drift("C01|composite-outcome|spec=%s real=%s" % (spec, real["k"]), "EvalAbs.tla (oracle mode) predicts %s, the real pipeline gives %s on e.g. %r" % (spec, real["k"], text[:160]))
    chk.cov["evaluations"] += len(ps)
    # dependency graphs over two declarations of every kind (RecGraphs) and the recursive instantiations (RecInst): what
    # the checker accepts of them must evaluate normally too (agreement with EvalAbs.tla in oracle mode is recorded as drift)
    for famname in ("recgraphs2", "recinst"):
        rf = run_tlc("DenMC", "Prog_%s.cfg" % famname, workers=4, timeout=900, java_opts=["-Xss512m"])
        chk.add_tlc(rf)
        fps = [c["prog"] for c in rf.cases]
        fes, frs = oracle.evalabs(fps, chunk=600)
        for r2 in frs:
            chk.add_tlc(r2)
        fcases = [progs.harness_case(p, style=i % 4)[0] for i, p in enumerate(fps)]
        fobs = run_oalv_parallel("compile", fcases, jobs=8)
        fc = {}
        for p, hc, o, e in zip(fps, fcases, fobs, fes):
            if o.get("outcome") == "skipped":
                continue
            real = progs.real_outcome(o)
            fc[((e or {}).get("outcome"), real["k"])] = fc.get(((e or {}).get("outcome"), real["k"]), 0) + 1
            text = hc["files"][hc["main"]]
            if real["k"] in ("OK", "ERROR", "CRASH", "ABORT", "HANG"):
                accepted += 1
            if real["k"] in ("CRASH", "ABORT", "HANG") and real.get("phase") != "load":
                key = key_for(real, None) if real["k"] == "CRASH" else "C01|%s" % real["k"].lower()
                chk.violation(key, "accepted program makes the back end %s: %r" % (real["k"].lower(), text[:200]), {"files": hc["files"], "family": [famname, "", ""], "real": real})
            elif e is not None and not (e["outcome"] == real["k"] or (e["outcome"] == "DIVERGE" and real["k"] in ("ABORT", "HANG"))):
                chk.drift("C01|%s-outcome|spec=%s real=%s" % (famname, e["outcome"], real["k"]), "EvalAbs.tla (oracle mode) predicts %s, the real pipeline gives %s on e.g. %r" % (e["outcome"], real["k"], text[:160]))
            else:
                chk.cov["traces_validated_against_impl"] += 1
        chk.cov["evaluations"] += len(fps)
        chk.notes.setdefault("recursive_families_spec_vs_real", {})[famname] = {"%s/%s" % k: v for k, v in sorted(fc.items(), key=str)}
    chk.cov["distinct_nontrivial"] = accepted
    chk.notes["composites_spec_vs_real"] = {"%s/%s" % k: v for k, v in sorted(gcounts.items())}
    chk.cov["rule"] = ("PosShape: 22 consuming positions x 25 shapes x 3 (quick) / 6 (thorough) indirections; FnPos: 18 parameter positions x 25 shapes x "
                       "{local, imported}; the Arity family (too few / too many arguments, local, imported, concat); recursive declaration shapes; the RecGraphs(2) and RecInst families; seeded random composite programs "
                       "(gen.py; 600 quick / 8000 thorough) judged by EvalAbs.tla in oracle mode; non-trivial = accepted by the real compiler (the property's antecedent); "
                       "members are distinct triples")
    if r.cases:
        k = len(r.cases) // 2
        chk.sample({"family": [r.cases[k]["pos"], r.cases[k]["shape"], r.cases[k]["ind"]], "text": cases[k]["files"], "spec_outcome": r.cases[k]["outcome"]})
    chk.assumptions = [
        "nesting depth of the family members is small (the depth ladder is exercised by C04)",
        "annotations are absent from these families (evaluation errors from annotations are covered by C13/C04)",
        "the abstract interpreter works on variants only; it is validated by exact agreement of the outcome class (and crash site) on every member",
    ]
    return chk.finish()


def replay(path):
    d = json.load(open(path))
    c = d["case"]
    common.build_harness()
    o = common.run_oalv("compile", [{"main": progs.B + "m1.oal", "files": c["files"], "want": {}}])[0]
    for k, v in c["files"].items():
        print(k)
        print(v)
    print("specification:", json.dumps(c.get("spec")))
    print("real:", json.dumps(progs.real_outcome(o)))
    return 1 if progs.real_outcome(o)["k"] in ("CRASH", "ABORT", "HANG") else 0
