"""Shared machinery for the checks: building, running the harness, running TLC,
evidence, findings, exit codes."""
import json
import os
import re
import shutil
import subprocess
import sys
import time

ROOT = os.path.dirname(os.path.dirname(os.path.abspath(__file__)))
REPO = "/repo"
SPEC = os.path.join(ROOT, "spec")
HARNESS = os.path.join(ROOT, "harness")
OALV = os.path.join(HARNESS, "target", "debug", "oalv")
WORK = os.path.join(ROOT, ".work", str(os.getpid()))
EVID = os.path.join(ROOT, "evidence")
REPLAYS = os.path.join(ROOT, "replays")
OAL_CLI = os.path.join(REPO, "target", "debug", "oal-cli")
OAL_LSP = os.path.join(REPO, "target", "debug", "oal-lsp")


class ToolError(Exception):
    """A failure of the machinery (exit 2); never a statement about the property."""


def log(*a):
    print(*a, file=sys.stderr, flush=True)


def workdir(sub=None):
    d = WORK if sub is None else os.path.join(WORK, sub)
    os.makedirs(d, exist_ok=True)
    return d


def cleanup():
    shutil.rmtree(WORK, ignore_errors=True)
    parent = os.path.dirname(WORK)
    try:
        if os.path.isdir(parent) and not os.listdir(parent):
            os.rmdir(parent)
    except OSError:
        pass


def seed():
    try:
        return int(os.environ.get("VERIF_SEED", "0"))
    except ValueError:
        return 0


# ---------------------------------------------------------------- building

_built = {}


def cargo_env():
    env = dict(os.environ)
    env["CARGO_NET_OFFLINE"] = "true"
    env.pop("RUSTFLAGS", None)
    return env


def build_harness():
    """(Re)builds the harness against /repo's current working tree, hooks on."""
    if _built.get("harness"):
        return
    t = time.time()
    lock = os.path.join(HARNESS, "Cargo.lock")
    if not os.path.exists(lock):
        shutil.copy(os.path.join(REPO, "Cargo.lock"), lock)
    p = subprocess.run(["cargo", "build", "--offline", "-q"], cwd=HARNESS, env=cargo_env(),
                       stdout=subprocess.PIPE, stderr=subprocess.PIPE, text=True)
    if p.returncode != 0:
        raise ToolError("harness build failed:\n" + p.stderr[-4000:])
    _built["harness"] = True
    log("[build] harness %.1fs" % (time.time() - t))


def build_bins():
    """(Re)builds oal-cli and oal-lsp from /repo's working tree (guard off)."""
    if _built.get("bins"):
        return
    t = time.time()
    p = subprocess.run(["cargo", "build", "--offline", "-q", "-p", "oal-client", "--bins"], cwd=REPO,
                       env=cargo_env(), stdout=subprocess.PIPE, stderr=subprocess.PIPE, text=True)
    if p.returncode != 0:
        raise ToolError("repo build failed:\n" + p.stderr[-4000:])
    _built["bins"] = True
    log("[build] oal-cli/oal-lsp %.1fs" % (time.time() - t))


# ---------------------------------------------------------------- harness runs

MAX_HANGS = 3
_HANGS = {}          # subcommand -> hangs seen in this check run (shared by parallel workers)


def _limits():
    import resource
    try:
        resource.setrlimit(resource.RLIMIT_AS, (6 << 30, 6 << 30))
    except (ValueError, OSError):
        pass


MAX_ABORTS = 40
_ABORTS = {}


def run_oalv(sub, cases, timeout_per_case=20.0, stack_mb=None, chunk=2000):
    """Runs cases through `oalv <sub>`; returns one result per case.
    A case that aborts the process (stack overflow, abort) yields
    {"outcome":"abort","signal":..}; a case that hangs yields {"outcome":"hang"}
    (normal cases take milliseconds; the limit is 20 s).  After MAX_HANGS hangs or
    MAX_ABORTS aborts the remaining cases are not run ({"outcome":"skipped"}) - the
    crash is the finding.  The process is restarted after the offending case; cases are
    fed in chunks so that a restart re-sends a bounded amount."""
    build_harness()
    results = []
    n = len(cases)
    env = dict(os.environ)
    if stack_mb:
        env["OALV_STACK_MB"] = str(stack_mb)
    i = 0
    while i < n:
        if _HANGS.get(sub, 0) >= MAX_HANGS or _ABORTS.get(sub, 0) >= MAX_ABORTS:
            results.extend({"outcome": "skipped"} for _ in range(n - i))
            break
        batch = cases[i:i + chunk]
        inp = "".join(json.dumps(c) + "\n" for c in batch)
        budget = max(30.0, timeout_per_case + 0.02 * len(batch))
        p = subprocess.Popen([OALV, sub], stdin=subprocess.PIPE, stdout=subprocess.PIPE,
                             stderr=subprocess.DEVNULL, env=env, preexec_fn=_limits)
        try:
            out, _ = p.communicate(inp.encode(), timeout=budget)
            hung = False
        except subprocess.TimeoutExpired:
            p.kill()
            out, _ = p.communicate()
            hung = True
        lines = out.decode("utf-8", "replace").splitlines()
        got = []
        for ln in lines:
            try:
                got.append(json.loads(ln))
            except ValueError:
                break
        got = got[:len(batch)]
        results.extend(got)
        i += len(got)
        if len(got) >= len(batch):
            continue
        # the process died or ran out of time on case i
        if hung:
            alone = _run_single(sub, cases[i], timeout_per_case, env)
            if alone.get("outcome") == "hang":
                _HANGS[sub] = _HANGS.get(sub, 0) + 1
            results.append(alone)
        else:
            rc = p.returncode
            _ABORTS[sub] = _ABORTS.get(sub, 0) + 1
            results.append({"outcome": "abort", "signal": -rc if rc is not None and rc < 0 else rc})
        i += 1
    if len(results) != n:
        raise ToolError("harness returned %d results for %d cases" % (len(results), n))
    return results


def _run_single(sub, case, timeout, env):
    p = subprocess.Popen([OALV, sub], stdin=subprocess.PIPE, stdout=subprocess.PIPE,
                         stderr=subprocess.DEVNULL, env=env, preexec_fn=_limits)
    try:
        out, _ = p.communicate((json.dumps(case) + "\n").encode(), timeout=timeout)
    except subprocess.TimeoutExpired:
        p.kill()
        p.communicate()
        return {"outcome": "hang", "timeout_s": timeout}
    lines = out.decode("utf-8", "replace").splitlines()
    if lines:
        try:
            return json.loads(lines[0])
        except ValueError:
            pass
    rc = p.returncode
    return {"outcome": "abort", "signal": -rc if rc is not None and rc < 0 else rc}


def run_oalv_parallel(sub, cases, jobs=8, **kw):
    """Splits cases over several harness processes (order preserved)."""
    import concurrent.futures as cf
    build_harness()
    if len(cases) < 64 or jobs <= 1:
        return run_oalv(sub, cases, **kw)
    size = (len(cases) + jobs - 1) // jobs
    chunks = [cases[k:k + size] for k in range(0, len(cases), size)]
    with cf.ThreadPoolExecutor(max_workers=jobs) as ex:
        parts = list(ex.map(lambda c: run_oalv(sub, c, **kw), chunks))
    out = []
    for p in parts:
        out.extend(p)
    return out


# ---------------------------------------------------------------- TLC

class TlcResult:
    def __init__(self):
        self.ok = False
        self.violation = None      # text of an invariant/property violation
        self.states = 0
        self.distinct = 0
        self.cases = []            # parsed CASE payloads
        self.lines = {}            # tag -> list of parsed payloads
        self.raw = ""
        self.wall = 0.0
        self.coverage = {}
        self.postcondition_failed = False


_STAT = re.compile(r"(\d+) states generated, (\d+) distinct states found, (\d+) states left on queue")
_TAGGED = re.compile(r'^<<"([A-Z]+)", (".*")>>$')


def run_tlc(module, cfg, workers=8, timeout=600, env_extra=None, tags=("CASE",), simulate=None,
            java_opts=None, coverage=False, deadlock=False, keep_raw=4000, xmx=None):
    """Runs TLC on spec/<module>.tla with spec/mc/<cfg>. Returns a TlcResult.
    Raises ToolError on parse errors, timeouts and TLC internal errors."""
    t0 = time.time()
    meta = os.path.join(workdir("tlc"), "%s_%s_%d" % (module, os.path.basename(cfg), int(t0 * 1000) % 10 ** 9))
    os.makedirs(meta, exist_ok=True)
    cmd = ["java", "-XX:+UseParallelGC", "-Djava.io.tmpdir=" + meta]     # TLC's scratch dirs go with the metadir
    if xmx:
        cmd.append("-Xmx" + xmx)
    if java_opts:
        cmd += list(java_opts)
    cmd += ["-cp", "/opt/veriftools/tla/tla2tools.jar:/opt/veriftools/tla/CommunityModules-deps.jar", "tlc2.TLC",
            "-workers", str(workers), "-metadir", meta, "-cleanup", "-noGenerateSpecTE",
            "-config", os.path.join("mc", cfg) if not os.path.isabs(cfg) else cfg]
    if not deadlock:
        cmd += ["-deadlock"]
    if coverage:
        cmd += ["-coverage", "1"]
    if simulate:
        cmd += ["-simulate", simulate]
    cmd.append(module + ".tla")
    env = dict(os.environ)
    if env_extra:
        env.update(env_extra)
    try:
        p = subprocess.run(["timeout", str(int(timeout))] + cmd, cwd=SPEC, env=env,
                           stdout=subprocess.PIPE, stderr=subprocess.STDOUT, text=True)
    finally:
        shutil.rmtree(meta, ignore_errors=True)
    r = TlcResult()
    r.wall = time.time() - t0
    out = p.stdout
    r.raw = out if len(out) < 200000 else out[:100000] + "\n...\n" + out[-100000:]
    if p.returncode == 124:
        raise ToolError("TLC timed out after %ss on %s/%s" % (timeout, module, cfg))
    for ln in out.splitlines():
        m = _TAGGED.match(ln)
        if m and m.group(1) in tags:
            try:
                payload = json.loads(json.loads(m.group(2)))
            except ValueError as e:
                raise ToolError("cannot parse TLC %s line: %s (%s)" % (m.group(1), ln[:200], e))
            r.lines.setdefault(m.group(1), []).append(payload)
            continue
        m = _STAT.search(ln)
        if m:
            r.states = int(m.group(1))
            r.distinct = int(m.group(2))
    r.cases = r.lines.get("CASE", [])
    for c in r.cases:
        if isinstance(c, dict) and isinstance(c.get("shape"), list):
            c["shape"] = "-".join(str(x) for x in c["shape"])         # family members named by a tuple (RecPair)
    if "Parsing or semantic analysis failed" in out or "*** Errors:" in out or "Fatal errors" in out:
        raise ToolError("TLC could not parse %s:\n%s" % (module, out[-3000:]))
    if "The first argument of Assert evaluated to FALSE" in out:
        i = out.find("The first argument of Assert evaluated to FALSE")
        r.violation = out[max(0, i - 200):i + keep_raw]
    elif "is violated" in out or "Temporal properties were violated" in out:
        i = out.find("Error:")
        r.violation = out[i:i + keep_raw]
    elif "Error:" in out:
        i = out.find("Error:")
        txt = out[i:i + keep_raw]
        if "postcondition" in txt.lower() or "Postcondition" in txt:
            r.postcondition_failed = True
            r.violation = txt
        else:
            raise ToolError("TLC error on %s/%s:\n%s" % (module, cfg, txt))
    elif p.returncode != 0:
        raise ToolError("TLC exit %d on %s/%s:\n%s" % (p.returncode, module, cfg, out[-3000:]))
    r.ok = r.violation is None
    log("[tlc] %s/%s: %d states, %d distinct, %d tagged lines, %.1fs%s" % (
        module, cfg, r.states, r.distinct, sum(len(v) for v in r.lines.values()), r.wall,
        "" if r.ok else " VIOLATION"))
    return r


def sany(module):
    p = subprocess.run(["java", "-cp", "/opt/veriftools/tla/tla2tools.jar:/opt/veriftools/tla/CommunityModules-deps.jar",
                        "tla2sany.SANY", module + ".tla"], cwd=SPEC, stdout=subprocess.PIPE,
                       stderr=subprocess.STDOUT, text=True)
    ok = p.returncode == 0 and "Semantic errors" not in p.stdout and "Parse Error" not in p.stdout \
        and "Fatal errors" not in p.stdout and "Could not" not in p.stdout
    return ok, p.stdout


# ---------------------------------------------------------------- findings / evidence

def load_findings():
    p = os.path.join(ROOT, "KNOWN_FINDINGS.json")
    if not os.path.exists(p):
        return []
    with open(p) as f:
        return json.load(f).get("findings", [])


class Check:
    """Accumulates the outcome of one check run and writes evidence."""

    def __init__(self, pid, tier):
        self.pid = pid
        self.tier = tier
        self.t0 = time.time()
        self.violations = []       # (key, description, replay-payload)
        self.known_hit = {}        # key -> description
        self.drifts = {}           # key -> (description, count): the implementation-shaped model no longer mirrors the code
        self.cov = {"states": 0, "transitions": 0, "traces_validated_against_impl": 0, "samples": [],
                    "evaluations": 0, "distinct_nontrivial": 0, "rule": "", "exhaustive": False}
        self.assumptions = []
        self.findings = [f for f in load_findings() if f.get("property") == pid and f.get("status") == "open"]
        self.notes = {}

    def add_tlc(self, r):
        self.cov["states"] += r.distinct
        self.cov["transitions"] += r.states

    def sample(self, s, limit=6):
        if len(self.cov["samples"]) < limit:
            self.cov["samples"].append(s)

    def violation(self, key, what, payload):
        """Registers a violation with signature `key`; known findings are matched by key."""
        for f in self.findings:
            if f["key"] == key:
                if key not in self.known_hit:
                    self.known_hit[key] = f["what"]
                return False
        self.violations.append((key, what, payload))
        return True

    def drift(self, key, what, payload=None):
        """The implementation-shaped part of the model disagrees with the code on something the
        property itself does not state (a counter, an internal order).  Not an alarm: the property's
        own predicates are evaluated separately on the observation; but the model-checked design
        results no longer transfer to the code, which the evidence records."""
        if key in self.drifts:
            self.drifts[key] = (self.drifts[key][0], self.drifts[key][1] + 1)
        else:
            self.drifts[key] = (what, 1)

    # non-vacuity floors (quick tier; about 40% of what the checks cover on the unchanged tree): a run that explores
    # far less than that without reporting a violation did not decide the property - it is a tool error, not a pass
    FLOORS = {"C01": 600, "C02": 900, "C03": 1000, "C04": 8000, "C05": 250, "C06": 10, "C07": 90000, "C08": 150, "C09": 140,
              "C10": 1200, "C11": 450, "C12": 12000, "C13": 30, "C14": 600, "C15": 70, "C16": 350, "C17": 10, "C18": 8}

    def finish(self):
        if not self.violations and self.cov.get("distinct_nontrivial", 0) < self.FLOORS.get(self.pid, 0):
            raise ToolError("coverage collapsed: %d non-trivial cases, at least %d expected - the check would be vacuous" % (
                self.cov.get("distinct_nontrivial", 0), self.FLOORS[self.pid]))
        os.makedirs(EVID, exist_ok=True)
        os.makedirs(REPLAYS, exist_ok=True)
        wall = time.time() - self.t0
        cov = dict(self.cov)
        for k, v in self.notes.items():
            if k in ("programs", "obligations", "discharged", "disagreements_checked", "states", "transitions", "evaluations", "distinct_nontrivial") and not isinstance(v, int):
                raise ToolError("note %r would shadow a typed coverage key of the evidence schema" % k)
        cov.update(self.notes)
        cov["known_findings_hit"] = sorted(self.known_hit)
        cov["model_drift"] = [{"key": k, "what": v[0], "count": v[1]} for k, v in sorted(self.drifts.items())]
        for k, v in sorted(self.drifts.items()):
            print("MODEL-DRIFT property=%s %s (x%d) [%s]" % (self.pid, v[0], v[1], k))
        if cov["states"] < 1 or cov["transitions"] < 1:
            # model_checking evidence needs TLC statistics; fall back to generic keys
            cov.pop("states")
            cov.pop("transitions")
        ev = {"property_id": self.pid, "tier": self.tier, "seed": seed(), "level": "model_checking",
              "coverage": cov, "assumptions": self.assumptions, "wall_s": round(wall, 2),
              "violations": len(self.violations)}
        with open(os.path.join(EVID, self.pid + ".json"), "w") as f:
            json.dump(ev, f, indent=1, sort_keys=True)
            f.write("\n")
        for key, what in sorted(self.known_hit.items()):
            print("KNOWN-FINDING: property=%s %s [%s]" % (self.pid, what, key))
        if self.violations:
            seen = set()
            for n, (key, what, payload) in enumerate(self.violations):
                if key in seen:
                    continue
                seen.add(key)
                if len(seen) > 10:
                    break
                safe = re.sub(r"[^A-Za-z0-9_.-]+", "_", key)[:80]
                path = os.path.join(REPLAYS, "%s_%s.json" % (self.pid, safe))
                with open(path, "w") as f:
                    json.dump({"property": self.pid, "key": key, "what": what, "case": payload}, f, indent=1)
                print("VIOLATION property=%s replay=%s" % (self.pid, path))
                log("  %s: %s" % (key, what))
            return 1
        print("OK property=%s tier=%s evaluations=%d wall=%.1fs" % (self.pid, self.tier, cov.get("evaluations", 0), wall))
        return 0
