"""usage: seed_keep.py <seed id> <worktree> <detected-by> <ran...>  — copies SEED/ of a scratch worktree to /verif/seeded/<id>/"""
import json
import os
import shutil
import sys

sid, wt, detected = sys.argv[1], sys.argv[2], sys.argv[3]
ran = sys.argv[4:]
dst = os.path.join("/verif/seeded", sid)
if os.path.isdir(dst):
    shutil.rmtree(dst)
os.makedirs(dst)
shutil.copy(os.path.join(wt, "SEED", "patch.diff"), os.path.join(dst, "patch.diff"))
shutil.copytree(os.path.join(wt, "SEED", "demo"), os.path.join(dst, "demo"))
meta = json.load(open(os.path.join(wt, "SEED", "meta.json")))
meta["detected_by"] = detected
meta["confirmed"] = ran
json.dump(meta, open(os.path.join(dst, "meta.json"), "w"), indent=1)
print("kept", dst)
