"""C07 — type inference terminates; verdict independent of order and names.

(S) TLC: Unify.tla — the union-find unifier as a state machine over every system of
    equations of the configured universe: UFWellFormed, Acyclic, NoDivergence,
    Terminates, VerdictIsSolvability (against an independent Robinson unifier),
    IsUnifier, MostGeneral.  Order independence follows because every permutation of
    a system is itself a member of the family and the reference is order-insensitive.
(O) every system with the spec's verdict and most general unifier is replayed through
    the real InferenceSet::unify / union::reduce (hook H2); verdict and reduced tag of
    every variable (up to renaming of free variables) must agree.
(P) program level: see c07_programs (permutations / renamings of whole programs).
"""
import json
import random

import common
from common import Check, run_tlc, run_oalv_parallel


def tag_h(t):
    """spec tag (JSON of the TLA+ record) -> harness tag"""
    k = t["k"]
    if k == "c":
        return t["n"]
    if k == "v":
        return {"v": t["i"] - 1}
    if k == "p":
        return {"p": tag_h(t["t"])}
    if k == "f":
        return {"f": [[tag_h(b) for b in t["b"]], tag_h(t["r"])]}
    raise ValueError(t)


def canon(vec):
    """renames free variables by first occurrence over the vector of reduced tags"""
    ren = {}

    def go(t):
        if isinstance(t, str):
            return t
        if "v" in t:
            if t["v"] not in ren:
                ren[t["v"]] = len(ren)
            return {"v": ren[t["v"]]}
        if "p" in t:
            return {"p": go(t["p"])}
        if "f" in t:
            return {"f": [[go(b) for b in t["f"][0]], go(t["f"][1])]}
        return t
    return [go(t) for t in vec]


def show(t):
    if isinstance(t, str):
        return t
    if "v" in t:
        return "v%d" % (t["v"] + 1)
    if "p" in t:
        return "prop[%s]" % show(t["p"])
    if "f" in t:
        return "(%s -> %s)" % (", ".join(show(b) for b in t["f"][0]), show(t["f"][1]))
    return str(t)


def show_sys(eqs):
    return "; ".join("%s = %s" % (show(l), show(r)) for l, r in eqs)


def classify(obs):
    """observation of the harness for the full system -> (verdict, detail)"""
    if obs.get("outcome") == "skipped":
        return "skipped", None
    if obs.get("outcome") in ("abort", "hang"):
        return "diverge", obs
    if obs.get("outcome") == "panic":
        return "panic", obs
    last = obs["steps"][-1]
    if last["verdict"] == "ok":
        if any(isinstance(x, dict) and x.get("outcome") == "panic" for x in last["reduced"]):
            return "panic", last
        return "ok", last["reduced"]
    if last["verdict"] == "err":
        return "err", last["msg"]
    return "panic", last


def check_cases(chk, cases, nvars, label):
    hcases = []
    for c in cases:
        eqs = [[tag_h(e[0]), tag_h(e[1])] for e in c["eqs"]]
        hcases.append({"nvars": nvars, "eqs": eqs})
    obs = run_oalv_parallel("unify", hcases, jobs=12)
    nontrivial = 0
    for c, h, o in zip(cases, hcases, obs):
        verdict, detail = classify(o)
        if verdict == "skipped":
            continue
        want = "ok" if c["status"] == "ok" else "err"
        structured = any(not isinstance(x, str) and ("p" in x or "f" in x) for e in h["eqs"] for x in e)
        if structured and len(h["eqs"]) >= 1:
            nontrivial += 1
        if verdict in ("diverge", "panic"):
            chk.violation("C07|unifier|%s" % verdict,
                          "the real unifier does not terminate normally (%s) on: %s" % (verdict, show_sys(h["eqs"])),
                          {"eqs": h["eqs"], "nvars": nvars, "spec_status": c["status"], "observed": detail if verdict != "diverge" else o})
            continue
        if verdict != want:
            chk.violation("C07|unifier|verdict",
                          "real verdict %s, specification %s (reference solvable=%s) on: %s" % (verdict, c["status"], c["ref"], show_sys(h["eqs"])),
                          {"eqs": h["eqs"], "nvars": nvars, "spec_status": c["status"], "observed": detail})
            continue
        if want == "ok":
            spec_vec = canon([tag_h(t) for t in c["reduced"]])
            real_vec = canon(detail)
            if spec_vec != real_vec:
                chk.violation("C07|unifier|mgu",
                              "reduced tags differ on: %s — real %s, specification %s" % (
                                  show_sys(h["eqs"]), [show(x) for x in real_vec], [show(x) for x in spec_vec]),
                              {"eqs": h["eqs"], "nvars": nvars, "spec": spec_vec, "observed": real_vec})
    chk.cov["traces_validated_against_impl"] += len(cases)
    chk.cov["evaluations"] += len(cases)
    chk.cov["distinct_nontrivial"] += nontrivial
    if cases:
        mid = hcases[len(hcases) * 2 // 3]
        chk.sample({"family": label, "system": show_sys(mid["eqs"]), "spec_status": cases[len(hcases) * 2 // 3]["status"]})
    log_counts = {}
    for c in cases:
        log_counts[c["status"]] = log_counts.get(c["status"], 0) + 1
    chk.notes.setdefault("status_counts", {})[label] = log_counts


def run(tier):
    chk = Check("C07", tier)
    common.build_harness()
    configs = [("Unify_quick.cfg", 2, "quick: <=2 equations over 22 tags")] if tier == "quick" else \
        [("Unify_quick.cfg", 2, "<=2 equations over 22 tags"),
         ("Unify_one.cfg", 3, "1 equation over 279 tags"),
         ("Unify_three.cfg", 3, "<=3 equations over 10 tags")]
    for cfg, nvars, label in configs:
        r = run_tlc("Unify", cfg, workers=8 if tier == "quick" else 16, timeout=3000, xmx="16g")
        chk.add_tlc(r)
        if not r.ok:
            chk.violation("C07|design", "Unify.tla violates an invariant under %s" % cfg, {"tlc": r.violation})
            continue
        check_cases(chk, r.cases, nvars, label)
    # the pinned design without the property arm in `occurs` must be caught by TLC itself (self-test of the model)
    rp = run_tlc("Unify", "Unify_pinned.cfg", workers=4, timeout=300)
    chk.add_tlc(rp)
    chk.notes["model_selftest"] = "Unify_pinned.cfg (occurs() not descending into Property): TLC %s" % (
        "finds the cyclic class" if not rp.ok else "FAILED to find the cyclic class")
    if rp.ok:
        raise common.ToolError("self-test: TLC no longer finds the cyclic class in the pre-fix design")
    import c07_programs
    c07_programs.run(chk, tier)
    chk.cov["rule"] = ("unifier: every sequence of <= MaxEqs equations over the configured tag universe (TLC Init), each replayed on the real "
                       "InferenceSet; non-trivial = at least one structured (property/function) tag; systems are distinct sequences. "
                       "programs: every member of the PosShape / FnPos / Arity families and seeded random composite programs (gen.py; 500 quick / 6000 thorough, 2% ill-sorted "
                       "sub-expressions) - the real verdict must equal that of Kinds.tla (families enumerated in TLC's Init; composites in oracle mode) and must not change "
                       "under permutations of declarations and consistent renaming; see program_families, composite_programs")
    chk.cov["exhaustive"] = True
    chk.assumptions = [
        "bounded: tag universes and equation counts of spec/mc/Unify_*.cfg; recursion budget Fuel=12 stands for the Rust stack",
        "the unifier is driven through hook H2 (oal_compiler::verif) exactly as compile() drives it: InferenceSet::push*, unify, then reduce of every variable",
        "error class = Kind::InvalidType for all inference errors; messages are not compared",
    ]
    return chk.finish()


def replay(path):
    d = json.load(open(path))
    c = d["case"]
    if "eqs" in c:
        common.build_harness()
        o = common.run_oalv("unify", [{"nvars": c["nvars"], "eqs": c["eqs"]}])[0]
        print("system:", show_sys(c["eqs"]))
        print("specification:", c.get("spec_status", c.get("spec")))
        print("real code:", json.dumps(o)[:1500])
        v, _ = classify(o)
        return 1 if v in ("diverge", "panic") or (c.get("spec_status") and (v == "ok") != (c["spec_status"] == "ok")) else 0
    import c07_programs
    return c07_programs.replay(c)
