"""Regenerates MANIFEST.json from the table below (python3 driver/manifest.py)."""
import json
import os
import subprocess

ROOT = os.path.dirname(os.path.dirname(os.path.abspath(__file__)))

CHECKS = {
    "C16": dict(
        design_ref="DESIGN.md 3.1, 4 (C16)",
        text="TLC model-checks Unicode.tla: the three conversion loops of lsp/unicode.rs, transcribed one action per loop iteration, "
             "agree with a declarative LSP 3.17 reference on every well-formed text up to the bound and every offset/position; "
             "RoundTrip, Clamp, Monotone and RangeSelects are invariants of the reference. The model is bound to the code by replaying "
             "every text of the family with every expected answer through the real functions (and CharSpan::from), and by having TLC "
             "judge the real functions' answers on longer random texts (oracle mode). Bounded, not a proof.",
        note="Trusted: symbol-to-character rendering, the Python LSP-client selection model, TLC. Domain: offsets on character boundaries "
             "not strictly inside CR LF; columns on UTF-16 character boundaries or past the end of line.",
        technique="TLA+ state machine of the conversion loops vs declarative reference (TLC, exhaustive to length 4/5) + exhaustive spec->impl replay + impl->spec oracle validation",
    ),
    "C07": dict(
        design_ref="DESIGN.md 3.2, 4 (C07)",
        text="TLC model-checks Unify.tla, a state machine with one action per activation of unify()/union(), over every system of up to "
             "2 (quick) / 3 (thorough) equations of a tag universe: the union-find stays a forest, no class becomes cyclic (= reduce "
             "terminates), the run terminates, the verdict equals solvability by an independent Robinson unifier, the result is a most "
             "general unifier. Every system is then replayed through the real InferenceSet/union-find and verdict plus reduced tags "
             "(up to renaming) are compared. Program level: verdict and error class of the real compiler under permutations of "
             "declarations and consistent renamings. Bounded, not a proof. Added since: program level also over the Arity and RecPair families, RecGraphs(2)/RecInst and seeded random composites with Kinds.tla in oracle mode; renaming of single binders (alpha-conversion) besides consistent renaming.",
        note="Trusted: TLC, the tag translation, hook H2 re-exports. Bounds in spec/mc/Unify_*.cfg.",
        technique="TLA+ state machine of the union-find unifier vs reference Robinson unifier (TLC, all systems up to a bound) + per-system replay into the real unifier",
    ),
    "C10": dict(
        design_ref="DESIGN.md 3.5, 4 (C10)",
        text="TLC model-checks Loader.tla (module::load as a state machine: one action per queue pop, import scan, link-or-load, "
             "toposort, compile) over every import graph of 3 (quick) / 4 (thorough) modules with duplicates, self imports, cycles, "
             "missing targets and syntactically broken modules: termination, load/parse/compile exactly once, imports compiled first, "
             "verdict a function of the import sets. Every graph is rendered to module texts (canonical and aliased relative spellings) "
             "and loaded by the real module::load with a recording loader: exact call sequences and verdict must match, the compile "
             "order must be one the specification allows. Recorded call sequences of family graphs and of larger random graphs are "
             "validated as behaviours by LoaderTrace.tla with every invariant checked on every state. Bounded, not a proof. Added since: half of the aliased renderings spread the modules over sub-directories with spellings relative to the importing module; a third, colliding rendering of every graph with a missing import puts the importer in lib/ and spells the missing lib/t.oal exactly like the import of the existing t.oal.",
        note="Trusted: TLC, the rendering of graphs to `use` statements, the recording in-memory Loader. Which error is reported when several are present is not compared.",
        technique="TLA+ state machine of module::load (TLC, all import graphs up to 4 modules) + spec->impl replay of every graph + impl->spec trace validation of recorded loader calls",
    ),
    "C14": dict(
        design_ref="DESIGN.md 3.7, 4 (C14)",
        text="TLC model-checks Merge.tla (Builder::into_openapi as a four-step state machine) over every abstract base description "
             "(every top-level field and component kind absent/present, components object absent/present, base with its own paths and "
             "schemas) combined with programs with and without paths and schemas: Frame, FromProgram, FrameAlways, Terminates. The "
             "abstract pairs are realised as concrete YAML bases and Oxlip programs, merged by the real Builder and by the real "
             "oal-cli --base, abstracted back field by field and compared with the specification's output record; Frame/FromProgram are "
             "also evaluated directly on the concrete documents. Bounded, not a proof. Added since: a program whose operations carry tags, summaries, operationIds and descriptions. Round 6: the base declares an openapi version of its own (3.0.1 / 3.0.0), a field Frame covers.",
        note="Trusted: TLC, the realisation of abstract field values, the field-wise abstraction of documents. Absent and empty are identified; bases are in the OpenAPI object model's normal form.",
        technique="TLA+ model of the base merge (TLC, all abstract bases x programs) + spec->impl replay through Builder and oal-cli with field-wise abstraction",
    ),
    "C12": dict(
        design_ref="DESIGN.md 3.3, 4 (C12)",
        text="Peg.tla models the parsing engine of grammar.rs (memo table, read/hit counters, arena with detach-on-append, repeat, "
             "intersperse) as a state-passing interpreter; OxlipGrammar.tla is parser.rs as data (every function, same order of "
             "alternatives). TLC evaluates MemoTransparent, CacheSound, Lossless, Progress, Linear and TriviaInvisible on every token "
             "sequence of seven families (fixed prefix + every tail up to 3-4 (quick) / 4-6 (thorough) tokens). Every member is "
             "replayed through the real parser with and without cache: tree, end cursor, error and the four counters are predicted "
             "exactly by the model (validating the transcription), and the property's own predicates - cached = uncached, reads <= "
             "40 x (n+1) - are evaluated on the real runs. Real runs on the repository corpus, token-level mutants, nests to depth 200 "
             "and sequences of thousands of tokens are judged by TLC in oracle mode (n <= 60) and against the linear bound (all n). "
             "Bounded, not a proof. Added since: every self-embedding construct nested (not only brackets), long flat prefixes followed/preceded by nests, family members with postfix operators, and sentences of the grammar enumerated by derivation depth (driver/sentences.py) - all through the real cached/uncached parser and, when short, TLC's oracle mode.",
        note="Trusted: TLC, the transcription of parser.rs (validated by exact agreement on every member), hook H1 counters. Disagreement of "
             "the model with the code on counters/trees that the property does not state is reported as MODEL-DRIFT, not as a violation.",
        technique="TLA+ interpreter of the memoizing PEG engine with the grammar as data (TLC, all token sequences of 7 families) + exact spec->impl replay (tree and counters) + impl->spec oracle validation",
    ),
    "C11": dict(
        design_ref="DESIGN.md 3.4, 4 (C11)",
        text="Tiling.tla is a TLA+ monitor: every observation of a real run (tokens and lexical errors of the logos lexer, the syntax "
             "tree with node spans, spans of syntax/compile/evaluation diagnostics and of definitions) is installed as a TLC state and "
             "judged against the declarative definitions IsTiling, OnBoundaries, TokenTexts, Lossless, Hull and SpansInText. Texts: "
             "repository corpus, character- and token-level mutants, arbitrary Unicode strings, rendered token sequences. The "
             "design-level Lossless/Contiguous invariants of the tree-building engine are model-checked by C12 over every token "
             "sequence of its families. The lexer DFA itself is not modelled (DESIGN.md 1.4). Added since: Lex.tla, a reference lexer (the token patterns of lexer.rs as data, maximal munch, literal before regular expression, a lexical error covers what the automaton consumed before it got stuck, two named deviations of the generated automaton: no way back out of an opened block comment, two-character chunks read atomically); TLC checks Tiles, Genuine, Maximal, ErrorsJustified on every text of up to 4 (quick) / 5 (thorough) characters over six sub-alphabets and the real lexer gives the same tokens and error spans on all of them (637 114 texts in the thorough tier); a directed family of programs that lex and parse but carry a compile or evaluation diagnostic (invalid YAML in line and inline annotations, unbound names, invalid statuses, missing imports, ...) with 2-4 byte characters inside and before the construct, whose diagnostic spans are judged by the Tiling monitor (a floor on the number of such spans makes a vacuous run a tool error).",
        note="Trusted: TLC, the extraction of observations by the harness (oalv parse/compile). The lexer has a reference specification with exhaustive small-scope conformance; beyond that scope it is observed through the monitor.",
        technique="TLA+ reference lexer with exhaustive small-scope replay on the real lexer + trace validation: observations of real lexer/parser/compiler runs judged by a TLA+ monitor specification (TLC) + design-level tree invariants model-checked in Peg.tla",
    ),
    "C04": dict(
        design_ref="DESIGN.md 3.9, 4 (C04)",
        text="Termination of the three loops that could diverge is model-checked on their specifications (Unify.tla: Acyclic, "
             "NoDivergence, Terminates; Peg.tla: Progress; Loader.tla: Terminates) and Frontends.tla has no crash or hang outcome. "
             "The binding is observational: rendered token sequences of the parser families with extreme lexemes, character- and "
             "token-level mutants of the repository corpus, arbitrary Unicode strings and nests to depth 200 go through "
             "tokenizer+parser, the full pipeline and oal_wasm::compile in process and, for a sample, through the real oal-cli and "
             "oal-lsp; any panic, abort, stack overflow, hang or server exit is a violation; recorded outcomes are validated by TLC "
             "against the totality monitor of FrontendsTrace.tla. Added since: the postfix operators inserted after every syntax node of every PosShape/FnPos member (exhaustive), other tokens at node boundaries (sampled), every opener nested with the error at the bottom.",
        note="Trusted: TLC, the process runner (timeouts: 20 s in process, 60 s binaries). The byte-level behaviour of the logos lexer is observed, not modelled; the input space is sampled (seeded), only the token-sequence families are exhaustive (C12).",
        technique="termination invariants model-checked in the TLA+ specs of unifier/parser/loader + trace validation of observed front-end outcomes against Frontends.tla over generated and mutated inputs",
    ),
    "C13": dict(
        design_ref="DESIGN.md 3.9, 4 (C13)",
        text="TLC model-checks Frontends.tla (the CLI run as config -> load -> eval -> base -> serialize -> write -> exit, the "
             "playground entry point and one language-server cycle on sources of a hidden class): WriteIsLast, ExitIffWritten, "
             "FailureIsLocatedAndHarmless, FrontEndsAgree, ConfigIrrelevant, Terminates. Sources of all seven classes "
             "(hand-written single- and multi-module representatives, accepted repository programs and class-directed mutants) are "
             "run through the real oal-cli under 8 configurations (options/config file x base/no base x target absent/present with "
             "sentinel), oal_wasm::compile and the real oal-lsp; TLC infers the hidden class from the recorded observations "
             "(FrontendsTrace.tla): a source is accepted iff one class explains all observations and equals the predicted class where "
             "one is known; CLI and playground documents are compared byte for byte. Added since: configuration modes options / config file / both (the file then names decoy main, target and base; Setting() and DecoyUntouched in Frontends.tla, pinned self-test), 12 CLI configurations; the two language-server cycles on the same sources must give the same verdict.",
        note="Trusted: TLC, the process runners, the criterion for a located diagnostic (stderr names a source module by URL). The class space is small and the model simple; the weight of this check is in the observations of the real binaries.",
        technique="TLA+ model of the front-end outcomes with a hidden source class (TLC) + trace validation of observed oal-cli / playground / oal-lsp runs with class inference",
    ),
    "C15": dict(
        design_ref="DESIGN.md 3.8, 4 (C15)",
        text="TLC model-checks Lsp.tla (document store with disk caching, staleness flag, pending errors, published diagnostics; "
             "DidOpen/DidChange/DidClose and Refresh split into Evaluate and Publish as in the code) over every history of up to 5 "
             "(quick) / 7 (thorough) events on a 4-document workspace with syntax, compile and evaluation defects and import cycles: "
             "NoDrift, HistoryIndependent, StaleCleared; a third configuration (Lsp_unbounded.cfg) hides the history variables behind a VIEW and "
             "closes the complete reachable graph, i.e. every history of any length (16 755 states), printing one shortest history per "
             "quiescent state (471), all of which are replayed; a further configuration keeps the pinned publish rule, in which TLC itself finds "
             "the stale-diagnostic history. Histories printed by TLC (one per abstract state at the bound) are replayed on the real "
             "oal-lsp with concrete multi-byte/CRLF sources and random incremental UTF-16 edits; after every refresh the published "
             "diagnostics are compared with the specification's and at the end with those of a fresh real server handed the final "
             "texts, as are definition/references/prepareRename answers; long random histories get the same fresh-server oracle; the "
             "server-side text is compared with the client's after every notification in process (hook H4). P2UMonotone/EditAgrees in "
             "Unicode.tla cover the conversion of edit ranges.",
        note="Trusted: TLC, the JSON-RPC client, the realisation of abstract texts, the Python model of client-side edit application. Domain: protocol-conforming notifications; files on disk unchanged during a history.",
        technique="TLA+ state machine of the language server (TLC, all histories up to 5/7 events, and the complete state graph for histories of any length) + replay of TLC-generated histories on the real oal-lsp with a fresh-server oracle + in-process text-drift check",
    ),
    "C08": dict(
        design_ref="DESIGN.md 3.6 (Resolve.tla), 4 (C08)",
        text="TLC model-checks Resolve.tla: the steps of resolve() (standard library, imports, declarations, pre-order traversal with "
             "Open/Define/Close on the scope stack, definition-graph edges) agree with a declarative binding relation (innermost rec "
             "binder, parameter, declaration regardless of order, import by qualifier, built-in) on every member of the Scopes family "
             "(one contested name bound simultaneously by every subset of binders x every use site, three modules); a second "
             "configuration keeps the pinned single root scope, where TLC itself finds the declaration/import collision. Every member "
             "is rendered in four trivia styles and resolved by the real resolve(): error class or complete binding table (every "
             "Variable's definition mapped back through the source map) must equal the specification's; for members the real compiler "
             "accepts, marker properties in the evaluated document show that evaluation used the value of the chosen binder. Added since: use sites after a rec, uses placed after the declarations, module g importing h under the same qualifier; every accepted member's evaluated document is compared with Den.tla's denotation (oracle mode); the DynScope family (caller binder named like a callee parameter); seeded random composites with shadowing, binding tables from ResolveMC.tla in oracle mode. Round 6: the Scopes family is compiled in two layouts - all modules side by side, and the imported modules in lib/ (imports written relative to the importing module) with decoy modules of the same names beside the main module.",
        note="Trusted: TLC, renderer and source map (cross-checked by tree2ast), hook H2. Two unqualified imports of the same name are outside the domain. One open known finding: the same @name declared in two modules shares one component.",
        technique="TLA+ state machine of name resolution vs declarative binding relation (TLC, Scopes family) + spec->impl replay comparing complete binding tables and evaluated markers",
    ),
    "C17": dict(
        design_ref="DESIGN.md 4 (C17)",
        text="The binding relation of the Scopes family (RefTable in Resolve.tla, model-checked equal to the steps of resolve() in C08) "
             "with RefsOf and the invariant Inverse in ResolveMC.tla is the oracle. For accepted members, rendered in four trivia styles "
             "(multi-byte comments, CRLF), the real oal-lsp is asked definition and references at every UTF-16 position of every loaded "
             "module, including positions past the end of lines; answers must be exactly the locations the binding relation gives "
             "through the renderer's source map, empty elsewhere, and every returned reference must resolve back to the binder on the "
             "real server. Added since: imported modules in sub-directories for odd rendering styles, the extended Scopes family (see C08), a stratified sample that always keeps members with shadowed binders.",
        note="Trusted: TLC, renderer/source map, the JSON-RPC client, the Python position arithmetic (independent of unicode.rs). Sampled members in the quick tier.",
        technique="binding relation model-checked in TLA+ (TLC) as oracle + exhaustive per-position replay of definition/references on the real oal-lsp",
    ),
    "C18": dict(
        design_ref="DESIGN.md 4 (C18)",
        text="The binding relation of the Scopes family (Resolve.tla / ResolveMC.tla, TLC) determines the expected edit set of a rename "
             "(binder identifier plus every bound use in any loaded module; for a qualifier: the import's qualifier plus every qualified "
             "use in that module). For accepted members the real oal-lsp is asked prepareRename at every UTF-16 position and rename "
             "with a fresh name for every offered identifier: the server must stay alive, edits must not overlap and must equal the "
             "expected set, and the edited sources compiled by the real compiler must be accepted and give the same document. Added since: as C17; the edited sources are compiled at the same relative locations.",
        note="Trusted: TLC, renderer/source map, JSON-RPC client, client-side edit application. @reference names are not in this family yet.",
        technique="binding relation model-checked in TLA+ (TLC) as oracle + replay of prepareRename/rename on the real oal-lsp with compilation of the edited sources",
    ),
    "C01": dict(
        design_ref="DESIGN.md 3.6 (Kinds.tla, EvalAbs.tla), 4 (C01)",
        text="Kinds.tla (tag(), constrain(), a reference unifier, type_check, cycles_check, cross-module tag export on the abstract syntax) "
             "and EvalAbs.tla (an abstract interpreter of eval.rs over value variants in which every cast_* is an explicit guard) predict, "
             "for every member of the PosShape and FnPos families (22 consuming positions x 25 shapes x 6 indirections; 18 parameter "
             "positions x 25 shapes x {local, imported function}), whether the program is rejected, evaluates, or crashes at which "
             "cast with which variant; TLC evaluates Sound = accepted => no crash on each. Every member is rendered and run through "
             "the real load/compile/eval/emit: the predicted outcome class and crash site must be the real ones (4200 members agree "
             "exactly, including the 150 crashes the model predicts), and any panic/abort/hang of an accepted program is a violation "
             "of the property, matched against KNOWN_FINDINGS.json by (cast site, variant, context). Added since: the Arity, RecPair, RecGraphs(2) and RecInst families, shapes for sums of URIs/relations and numbers outside the status domain (a located error, modelled in EvalAbs.tla), and seeded random composite programs judged by EvalAbs.tla in oracle mode (file mode: one TLC initial state per program). Round 6: status numbers at and beyond 16/32/64-bit widths are shapes of the family and statuses of the generator.",
        note="Trusted: TLC, renderer. Six genuine defects are recorded as known findings (headers with a join/sum of objects, ranges as a transfer domain, sums of URIs/relations where a URI/relation is consumed, imported functions not re-checked per application); each needs a language-level decision rather than a local patch.",
        technique="TLA+ reference kind checker + abstract interpreter of the evaluator with casts as guards (TLC over position x shape x indirection families) + exact spec->impl replay of outcome class and crash site",
    ),
    "C06": dict(
        design_ref="DESIGN.md 4 (C06)",
        text="Determinism.tla lists every collection of the evaluated specification that reaches the serializer with its iteration "
             "discipline (insertion order, fixed key order, or hashed = any order) and TLC checks Deterministic (at most one entry "
             "eligible next) and SourceOrder; a second configuration keeps the pinned hashed discipline of `examples`, where TLC finds "
             "the nondeterminism itself. The binding is observational: directed programs that put 2-5 entries into each collection "
             "(examples at three levels, references, ranges, methods, rec in functions, imported modules) and accepted corpus programs "
             "are compiled by 8 (quick) / 48 (thorough) fresh oal-cli processes and three times in one process after unrelated "
             "compilations; all YAML texts must be byte-identical and examples must appear in source order. Added since: the last three runs of every program see a shifted wall clock (LD_PRELOAD shim driver/faketime.c), repeated in-process compilations run on threads of their own, Determinism.tla carries the ambient state (prior compilations, clock) with AmbientFree and two more pinned self-tests; directed programs are asserted to be accepted (a rejected one is a tool error); every program is also compiled from two other working directories (two levels below the sources, their parent) with the main module named by the corresponding relative path, and Determinism.tla has the ambient variable cwd with a pinned cwd-relative self-test.",
        note="Trusted: TLC, the process runner. Hash seeds are observed over N processes, not modelled; the model is small and mainly records which collections must be ordered.",
        technique="TLA+ model of iteration disciplines of the output-path collections (TLC) + multi-process / repeated in-process byte comparison of the real compiler's output",
    ),
    "C03": dict(
        design_ref="DESIGN.md 3.6 (Emit.tla), 4 (C03)",
        text="Emit.tla models the closure-relevant part of the emitter (maybe_inline / reference_schema / all_components, path keys and "
             "path parameters, synthesized operationIds) over every pair of different URI patterns of up to two segments x method sets x "
             "up to three references of every kind; TLC checks RefsClosed, NoDanglingComponents, PathParamsMatch and, in a second "
             "configuration, finds by itself the pairs whose synthesized operationIds collide. Every pair is compiled by the real "
             "pipeline (the predicted collisions are exactly the real ones) and an independent validator checks every emitted document - "
             "of the pairs, of every accepted member of the position/shape families, recursion shapes, corpus, determinism programs, and "
             "of documents merged with a base - for $ref closure, path variable/parameter bijection, response keys, unique "
             "operationIds; YAML round-trip equality is evaluated on the OpenAPI object model. Added since: documents of the Uris/Xfers/Ranges/Schemas/RecInst families and of seeded random composites are validated too, whatever outcome the specification predicts; round-trip equality is judged on documents (JSON), not on Rust values. Round 6: the variables of a path key are checked against the path item's parameters also when the item has no operation.",
        note="Trusted: TLC, renderer, the Python validator. One genuine defect (synthesized operationIds collide) is a recorded known finding, recognised by Emit.tla's own prediction of the colliding pairs - a collision the model does not predict is a violation.",
        technique="TLA+ model of reference inlining/registration, path keys and operationId synthesis (TLC over URI pairs) + independent structural validation of every emitted document",
    ),
    "C05": dict(
        design_ref="DESIGN.md 4 (C05)",
        text="At the level of the specification TLC checks AbstractionFree (EvalAbsMC.tla): for every (position, shape) of the PosShape "
             "family the outcome predicted by Kinds.tla/EvalAbs.tla is the same whether the value is written in place, named with let, "
             "passed through an identity function, or the let / function is moved to an imported module; TriviaInvisible is checked in "
             "PegMC.tla and the binding relation is order-free by construction. On the real compiler, accepted family members are "
             "rewritten on the abstract syntax (3 trivia styles, permutation of declarations, consistent renaming, parenthesise all / "
             "one expression, name-with-let, inline-let, wrap-in-function, move-to-module, and the family's own indirections); original "
             "and rewritten program are compiled: the rewritten one must be accepted and emit the same document up to generated "
             "component names (hash-named components unfolded). Added since: rewrites abstract-subterm (beta-expansion) and rename-one-binder (alpha-conversion of a single binder); subjects RecInst, DynScope, Annots (annotated values, with every order of statements for the shared-recursive-declaration members) and seeded random composites.",
        note="Trusted: TLC, renderer (cross-checked by tree2ast), the rewrite implementations with their side conditions, absdoc.canon. Renaming of @reference names and @let introduction are not meaning-preserving and are excluded.",
        technique="TLA+ invariance of predicted outcomes under indirection (TLC) + metamorphic replay of AST rewrites on the real compiler with documents compared up to generated names",
    ),
    "C09": dict(
        design_ref="DESIGN.md 3.6 (Cycles.tla, EvalOp.tla), 4 (C09)",
        text="Cycles.tla is the fix-point loop of cycles_check as a state machine (components visited in any order, the inbounds buffer "
             "shared by the components of an iteration) over every definition graph of 3 (quick) / 4 (thorough) nodes x every set of "
             "referential nodes: Terminates, Verdict (= the sub-graph of non-referential definitions is acyclic, independently of the "
             "order), Flags. EvalOp.tla is the stateful evaluator (reference table None -> Some, scope stack, scope-id sequence, event "
             "sequence) run by TLC on the RecGraphs family (every dependency graph over 2 / 3 declarations of six kinds) and the RecInst "
             "family (rec expressions inside functions applied 1-3 times, nested, imported, rec in rec, explicit and mutual references). "
             "Every member is compiled by the real pipeline: rejection of uncuttable cycles, is_recursive flags, termination, number of "
             "components (distinct instantiations distinct, one instantiation once), closure, no component that is only a reference "
             "cycle; the real evaluator's event stream (hook H3) is validated event by event against EvalOp.tla's. Added since: kind `rel` in RecGraphs, more RecInst templates (nested functions with two arguments, equal file names in two directories), seeded random composites judged by EvalOp.tla in oracle mode (outcome, flags, components, event stream). Round 6: RecInst templates in which an evaluated reference / recursive declaration holding a rec is used again inside function applications and rec scopes.",
        note="Trusted: TLC, renderer, hooks H2/H3. One genuine defect (a kinded alias cycle is accepted and emitted as a self-referential $ref) is a recorded known finding.",
        technique="TLA+ state machine of cycles_check (TLC, all graphs) + TLA+ stateful evaluator over recursion families (TLC) + spec->impl replay with trace validation of evaluator events",
    ),
    "C02": dict(
        design_ref="DESIGN.md 3.6 (Den.tla), 4 (C02)",
        text="Den.tla is an independent reference semantics (static binding relation, lexical environment of thunks keyed by binder "
             "identity, call by name, recursion by unfolding to a structural depth, explicit references as named references) that maps "
             "a program to an abstract document: path items with path/query parameters, one operation per declared method with query "
             "and header parameters, request body, responses per (status, media type) with schema and headers, explicit components. "
             "TLC evaluates it on every member of eight families that the kind checker model accepts (about 3 000 accepted programs). "
             "Each is rendered (renderer cross-checked by tree2ast), compiled by the real pipeline, and the emitted document - "
             "abstracted into the same shape with implicit components unfolded to the same depth - must equal the denotation; "
             "differences are classified (response-missing, operation-missing, schema differs, ...). Added since: annotations have a denotation in Den.tla (flow through terms, declarations, parameters, applications, rec unfoldings; placement per construct) and are compared key by key; families Annots (with a pinned variant, ParamPrecedence = use, that classifies the one open precedence finding exactly), DynScope, same-file-name modules; seeded random composite programs, half of them annotated, judged by Den.tla in oracle mode. Round 6: property marks against the required default of the property's type (shape a-reqmix, required annotations on generated primitives); the type's default counts in object schemas only, as in the emitter.",
        note="Trusted: TLC, renderer, the Python abstraction of documents. Annotations are part of the denotation. Three defects found were fixed (default response media types, response headers per status, shared recursive declarations annotated by their first use); open known findings: two resources with one path, annotation precedence through function parameters.",
        technique="independent TLA+ reference semantics (denotation by unfolding) evaluated by TLC over program families + comparison with the abstraction of the real emitted document",
    ),
}

PENDING_REASON = "not claimed"


ROUND7 = {
    "C01": " Round 7: a directed family of reference chains (aliases of aliases, two and three links, @ and plain names mixed, 12 kinds of value at 20 consuming positions) is compiled as well; accepted members must not crash.",
    "C03": " Round 7: the schemas / recinst families and half of the random composites are compiled a second time with every declared name, @references included, respelled with the other identifier characters ($, -, _, digits).",
    "C05": " Round 7: a fourth trivia style cycles through 13 block-comment shapes (runs of stars at either end and inside, slashes, several lines, adjacent comments; only shapes the pinned lexer takes as one comment).",
    "C08": " Round 7: the Scopes family has members in which the imported module imports a third module unqualified and does not declare the contested name itself (imports are not transitive).",
    "C12": " Round 7: the tails of the family members also go through the other public entry points (expression, term, statement, declaration, content, transfer) with and without the memo table; result, end cursor, tree and error (message and position) must be equal - `program` discards the errors of its inner productions.",
    "C14": " Round 7: the base's security list holds an empty requirement object besides a non-empty one.",
}


def main():
    props = [json.loads(l) for l in open(os.path.join(ROOT, "properties.jsonl"))]
    try:
        commits = subprocess.run(["git", "-C", "/repo", "log", "--format=%H %s"], stdout=subprocess.PIPE, text=True).stdout.splitlines()
        hook_commits = [c.split()[0] for c in commits if " verif hook " in c]
    except Exception:
        hook_commits = []
    m = {
        "version": 1,
        "setup_cmd": "./check --setup",
        "hooks": {
            "guard": "oxlip_verif",
            "enable": "rustc --cfg oxlip_verif, set in /verif/harness/.cargo/config.toml (build.rustflags); the harness crate has path dependencies on /repo/oal-*",
            "baseline_off_cmd": "cd /repo && cargo test --workspace --no-fail-fast --offline",
            "source_commits": list(reversed(hook_commits)),
            "add_only": True,
        },
        "engines": [
            {"name": "tlc", "path": "spec/", "serves_properties": sorted(CHECKS), "kind_free_text": "TLA+ specifications checked with TLC 1.8 (exhaustive small-scope, oracle and trace-validation configurations under spec/mc)"},
            {"name": "oalv", "path": "harness/", "serves_properties": sorted(CHECKS), "kind_free_text": "Rust conformance harness built against /repo's working tree with --cfg oxlip_verif"},
            {"name": "driver", "path": "driver/", "serves_properties": sorted(CHECKS), "kind_free_text": "Python 3 (stdlib) orchestration: TLC runs, replay of TLC-generated cases into the real code, trace recording, evidence"},
        ],
        "checks": [],
        "not_applicable": [],
        "notes": "All checks are ./check <id> --tier quick|thorough; exit 0 = held on everything explored, 1 = VIOLATION line + replay file, 2 = tool error (never a claim about the property). VERIF_SEED seeds every random choice.",
    }
    for p in props:
        pid = p["id"]
        if pid in CHECKS:
            c = CHECKS[pid]
            m["checks"].append({
                "property_id": pid,
                "quick_cmd": "./check %s --tier quick" % pid,
                "thorough_cmd": "./check %s --tier thorough" % pid,
                "evidence_file": "evidence/%s.json" % pid,
                "replay_cmd_template": "./check %s --replay {path}" % pid,
                "engine": "tlc",
                "level_claimed": {"category": "model_checking", "text": c["text"] + ROUND7.get(pid, ""), "design_ref": c["design_ref"]},
                "level_note": c["note"],
                "technique": c["technique"],
            })
        else:
            m["not_applicable"].append({"property_id": pid, "reason": PENDING_REASON})
    with open(os.path.join(ROOT, "MANIFEST.json"), "w") as f:
        json.dump(m, f, indent=1)
        f.write("\n")


if __name__ == "__main__":
    main()
