"""Independent structural validator of emitted OpenAPI documents (JSON form):
$ref closure, path variables <-> required path parameters, response keys, unique operationIds."""
import re

METHODS = ("get", "put", "post", "delete", "options", "head", "patch", "trace")
STATUS = re.compile(r"^([1-5][0-9][0-9]|[1-5]XX|default)$")


def walk(x, f, path=()):
    if isinstance(x, dict):
        f(x, path)
        for k, v in x.items():
            walk(v, f, path + (k,))
    elif isinstance(x, list):
        for i, v in enumerate(x):
            walk(v, f, path + (i,))


def validate(doc):
    """returns a list of (kind, description)"""
    out = []
    if not isinstance(doc, dict):
        return [("not-a-document", repr(doc)[:80])]
    comps = ((doc.get("components") or {}).get("schemas")) or {}

    def ref_check(node, path):
        r = node.get("$ref")
        if isinstance(r, str):
            m = re.match(r"^#/components/schemas/(.+)$", r)
            if not m:
                out.append(("ref-not-local", "%s at %s" % (r, "/".join(map(str, path)))))
            elif m.group(1) not in comps:
                out.append(("dangling-ref", "%s at %s" % (r, "/".join(map(str, path)))))
    walk(doc, ref_check)
    # a component must hold a schema: following components that are nothing but a $ref must end at one
    for name in comps:
        seen = []
        cur = name
        while isinstance(comps.get(cur), dict) and set(comps[cur].keys()) == {"$ref"} and cur not in seen:
            seen.append(cur)
            m = re.match(r"^#/components/schemas/(.+)$", comps[cur]["$ref"])
            cur = m.group(1) if m else None
        if cur in seen:
            out.append(("component-is-only-a-reference-cycle", "component %s refers only to itself (%s)" % (name[:24], " -> ".join(x[:12] for x in seen))))
    opids = {}
    for pkey, item in (doc.get("paths") or {}).items():
        if not isinstance(item, dict):
            continue
        pvars = re.findall(r"\{([^}]*)\}", pkey)
        if len(set(pvars)) != len(pvars):
            out.append(("duplicate-path-variable", pkey))
        if not any(item.get(m) is not None for m in METHODS):
            # a resource without operations: the variables of its key are answered by the parameters of the path item alone
            pp = [p for p in (item.get("parameters") or []) if isinstance(p, dict) and p.get("in") == "path"]
            names = [p.get("name") for p in pp]
            if sorted(names) != sorted(pvars):
                out.append(("path-parameters-mismatch", "%s (no operations): variables %s, path parameters %s" % (pkey, pvars, names)))
            for p in pp:
                if p.get("required") is not True:
                    out.append(("path-parameter-not-required", "%s: %s" % (pkey, p.get("name"))))
        for m in METHODS:
            op = item.get(m)
            if op is None:
                continue
            params = list(item.get("parameters") or []) + list(op.get("parameters") or [])
            pp = [p for p in params if isinstance(p, dict) and p.get("in") == "path"]
            names = [p.get("name") for p in pp]
            if sorted(names) != sorted(pvars):
                out.append(("path-parameters-mismatch", "%s %s: variables %s, path parameters %s" % (m, pkey, pvars, names)))
            for p in pp:
                if p.get("required") is not True:
                    out.append(("path-parameter-not-required", "%s %s: %s" % (m, pkey, p.get("name"))))
            oid = op.get("operationId")
            if oid is not None:
                opids.setdefault(oid, []).append("%s %s" % (m, pkey))
            for sk in (op.get("responses") or {}):
                if not STATUS.match(str(sk)):
                    out.append(("bad-response-key", "%s %s: %r" % (m, pkey, sk)))
    for oid, where in opids.items():
        if len(where) > 1:
            out.append(("duplicate-operationId", "%s used by %s" % (oid, where)))
    return out
