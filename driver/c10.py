"""C10 — modules load once, compile after their imports; import cycles are errors.

(S) TLC: Loader.tla over every import graph of the configured size: Terminates, OnceSoFar,
    Verdict (a function of the import *sets*: independent of `use` order and spelling),
    ExactlyOnce, ImportsFirst, CompileOnlyWhenSound.
(O) every graph is rendered to module texts (two renderings: canonical and aliased relative
    spellings) and loaded by the real module::load with a recording loader; the exact
    load/parse/is_valid call sequences and the result must equal the specification's, the
    compile sequence must be one of the topological orders the specification allows.
(T) the recorded call sequences of family graphs and of larger random graphs are validated
    as behaviours of the specification by LoaderTrace.tla (all invariants on every state).
"""
import json
import os
import random

import common
from common import Check, run_tlc, run_oalv_parallel, workdir

BASE = "file:///w/"


DIRS = ["", "lib/", "lib/deep/", "other/"]


def layout_of(G, rng):
    """directory of every module: flat, or (half of the aliased renderings) spread over sub-directories - the main module
    stays at the top"""
    if rng is None or rng.random() < 0.5:
        return {m: "" for m in G}
    return {m: ("" if m == "m1" else rng.choice(DIRS)) for m in G}


def path_of(m, layout):
    return layout.get(m, "") + m + ".oal"


def url(m, layout=None):
    return BASE + path_of(m, layout or {})


def spellings(m, t, rng, layout):
    """a relative spelling, from the importing module m's directory, of the file of t"""
    import posixpath
    rel = posixpath.relpath(path_of(t, layout), posixpath.dirname(path_of(m, layout)) or ".")
    opts = [rel, "./" + rel, "sub/../" + rel, "a/b/../../" + rel]
    if not layout.get(m):
        opts.append("../w/" + rel)            # the folder itself is /w/
    return rng.choice(opts)


def render(G, broken, rng=None):
    files = {}
    layout = layout_of(G, rng)
    for m, imps in G.items():
        lines = []
        for t in imps:
            sp = (t + ".oal") if rng is None else spellings(m, t, rng, layout)
            lines.append('use "%s";' % sp)
        decl = "let = ;" if m in broken else "let d_%s = num;" % m
        if rng is not None and m not in broken and rng.random() < 0.35:
            # the grammar allows use statements among the other statements: some or all of them after the declaration
            k = rng.randrange(len(lines) + 1)
            lines = lines[:k] + [decl] + lines[k:]
        else:
            lines.append(decl)
        files[url(m, layout)] = "\n".join(lines) + "\n"
    return {"main": url("m1"), "files": files, "real_compile": True}


CURRENT_NAMES = {}      # per-case URL -> abstract name (the colliding rendering places a missing target under an existing module's file name)


def render_colliding(G, broken):
    """a rendering in which every missing import of a module other than the main one is spelled exactly like an import of an
    existing module written elsewhere: the importing module sits in lib/, the existing module t at the top, the missing file is
    lib/t.oal and both are spelled "t.oal".  None when the graph has no such import."""
    movers = [m for m in G if m != "m1" and any(t not in G for t in G[m])]
    if not movers:
        return None, None
    layout = {m: ("lib/" if m in movers else "") for m in G}
    tops = [m for m in G if m not in movers and m != "m1"] or ["m1"]
    names, files = {}, {}
    for m, imps in G.items():
        lines = []
        for t in imps:
            if t not in G and m in movers:
                twin = tops[(len(t) + len(m) + int(t[-1:] if t[-1:].isdigit() else 0)) % len(tops)]
                names[BASE + "lib/" + twin + ".oal"] = t
                lines.append('use "%s.oal";' % twin)
            elif t in G and layout[t] == layout[m]:
                lines.append('use "%s.oal";' % t)
            elif t in G and layout[m] == "lib/":
                lines.append('use "../%s.oal";' % t)
            elif t in G:
                lines.append('use "lib/%s.oal";' % t)
            else:
                lines.append('use "%s.oal";' % t)
        lines.append("let = ;" if m in broken else "let d_%s = num;" % m)
        files[url(m, layout)] = "\n".join(lines) + "\n"
    return {"main": url("m1"), "files": files, "real_compile": True}, names


def name(u):
    if u in CURRENT_NAMES:
        return CURRENT_NAMES[u]
    # module names are unique whatever the directory
    return u[len(BASE):-4].rsplit("/", 1)[-1] if u.startswith(BASE) and u.endswith(".oal") else u


def events_of(G, broken, obs):
    """the recorded call sequence as trace events"""
    ev = [{"e": "init", "G": G, "broken": sorted(broken)}]
    for c in obs["calls"]:
        if c[0] == "is_valid":
            ev.append({"e": "is_valid", "t": name(c[1]), "ok": c[2]})
        else:
            ev.append({"e": c[0], "m": name(c[1])})
    r = obs["result"]
    if r["ok"]:
        ev.append({"e": "result", "kind": "ok", "target": ""})
    else:
        kind, target = classify_error(r["error"])
        ev.append({"e": "result", "kind": kind, "target": target})
    return ev


def classify_error(err):
    if err.get("class") == "syntax":
        return "syntax", name(err["loc"])
    if err.get("class") == "compiler":
        k = err["kind"]
        if k.startswith("InvalidModule("):
            return "missing", name(k[len("InvalidModule("):-1])
        if k == "CycleDetected":
            return "cycle", ""
        return "compile:" + k, ""
    return "io", ""


def compare(chk, G, broken, allowed, spec, obs, label):
    key = json.dumps(G, sort_keys=True)
    if obs.get("outcome") == "skipped":
        return
    if obs.get("outcome") != "ok":
        chk.violation("C10|crash|%s" % obs.get("outcome"), "module::load %s on graph %s" % (obs.get("outcome"), key),
                      {"G": G, "broken": sorted(broken), "obs": obs})
        return
    calls = obs["calls"]
    loaded = [name(c[1]) for c in calls if c[0] == "load"]
    parsed = [name(c[1]) for c in calls if c[0] == "parse"]
    valids = [name(c[1]) for c in calls if c[0] == "is_valid"]
    compiled = [name(c[1]) for c in calls if c[0] == "compile"]
    if obs["result"]["ok"]:
        kind, target = "ok", ""
    else:
        kind, target = classify_error(obs["result"]["error"])
    payload = {"G": G, "broken": sorted(broken), "rendering": label, "spec": spec, "observed": {"kind": kind, "target": target, "calls": calls}}
    if kind != spec["kind"]:
        chk.violation("C10|result|%s-vs-%s" % (kind, spec["kind"]),
                      "graph %s: real loader result %s, specification %s" % (key, kind, spec["kind"]), payload)
        return
    if len(set(loaded)) != len(loaded) or len(set(parsed)) != len(parsed) or len(set(compiled)) != len(compiled):
        chk.violation("C10|twice", "graph %s: a module is loaded, parsed or compiled more than once" % key, payload)
        return
    if kind == "ok":
        reach = set(spec["loaded"])          # on success the specification loads exactly the reachable modules
        if set(loaded) != reach or set(parsed) != reach or set(compiled) != reach:
            chk.violation("C10|not-exactly-reachable", "graph %s: loaded %s parsed %s compiled %s, reachable %s" % (
                key, sorted(loaded), sorted(parsed), sorted(compiled), sorted(reach)), payload)
            return
        if compiled not in allowed:
            chk.violation("C10|compile-order", "graph %s: compile order %s is not a topological order of the import graph (allowed: %s)" % (
                key, compiled, allowed[:4]), payload)
            return
    if loaded != spec["loaded"] or parsed != spec["parsed"] or valids != spec["valids"]:
        chk.drift("C10|calls", "exploration order differs from Loader.tla, e.g. graph %s: load=%s is_valid=%s, specification load=%s is_valid=%s" % (
            key, loaded, valids, spec["loaded"], spec["valids"]))
    if kind != "ok" and kind in ("cycle", "missing", "syntax") and compiled:
        chk.drift("C10|compile-before-error", "graph %s: modules compiled before loading fails with %s" % (key, kind))


def obs_record(G, broken, obs):
    calls = obs["calls"]
    if obs["result"]["ok"]:
        kind, target = "ok", ""
    else:
        kind, target = classify_error(obs["result"]["error"])
    return {"G": G, "broken": sorted(broken), "kind": kind, "target": target,
            "loaded": [name(c[1]) for c in calls if c[0] == "load"],
            "parsed": [name(c[1]) for c in calls if c[0] == "parse"],
            "valids": [name(c[1]) for c in calls if c[0] == "is_valid"],
            "compiled": [name(c[1]) for c in calls if c[0] == "compile"]}


def judge_observations(chk, recs, label):
    """TLC evaluates the specification's property definitions on the observed outcomes."""
    if not recs:
        return
    path = os.path.join(workdir(), "loader_obs_%s.ndjson" % label)
    with open(path, "w") as f:
        for r in recs:
            f.write(json.dumps(r) + "\n")
    r = run_tlc("LoaderTrace", "LoaderObs.cfg", workers=8, timeout=1800, env_extra={"OBS": path, "TRACE": path}, xmx="4g")
    chk.add_tlc(r)
    if not r.ok:
        chk.violation("C10|observed-outcome", "an observed outcome of the real loader violates Verdict/ExactlyOnce/ImportsFirst (TLC monitor, %s)" % label,
                      {"tlc": (r.violation or "")[:3000]})
    else:
        chk.cov["traces_validated_against_impl"] += len(recs)


def random_graph(rng, n):
    mods = ["m%d" % (k + 1) for k in range(n)]
    G = {}
    style = rng.choice(["dag", "dag", "any", "chain", "diamond"])
    for idx, m in enumerate(mods):
        k = rng.choice([0, 1, 1, 2, 2, 3])
        if style == "dag":
            cands = mods[idx + 1:]
        elif style == "chain":
            cands = mods[idx + 1:idx + 2]
        elif style == "diamond":
            cands = mods[idx + 1:idx + 3] + mods[-1:]
            cands = [c for c in cands if c != m]
        else:
            cands = mods
        imps = [rng.choice(cands) for _ in range(k)] if cands else []
        if rng.random() < 0.04:
            imps.insert(rng.randint(0, len(imps)), "x%d" % rng.randint(1, 2))
        if rng.random() < 0.05 and idx > 0:
            imps.append(rng.choice(mods[:idx + 1]))   # back edge -> cycle
        G[m] = imps
    # keep only modules reachable from m1 non-empty (unreachable ones may exist as files but are never touched)
    return G


def validate_traces(chk, traces, label):
    path = os.path.join(workdir(), "loader_trace_%s.ndjson" % label)
    n = 0
    with open(path, "w") as f:
        for ev in traces:
            for e in ev:
                f.write(json.dumps(e) + "\n")
                n += 1
    r = run_tlc("LoaderTrace", "LoaderTrace.cfg", workers=1, timeout=1800, env_extra={"TRACE": path},
                tags=("REJECTED",), java_opts=["-Xss1g", "-Dtlc2.tool.queue.IStateQueue=StateDeque"], xmx="4g")
    chk.add_tlc(r)
    if not r.ok:
        if r.postcondition_failed or "REJECTED" in r.lines:
            rej = r.lines.get("REJECTED", [{}])[0]
            chk.drift("C10|trace-rejected", "a recorded call sequence is not a behaviour of Loader.tla's exploration order (first unmatched event %s)" % json.dumps(rej.get("event")))
        else:
            chk.violation("C10|trace-invariant", "a recorded call sequence violates an invariant of Loader.tla",
                          {"tlc": (r.violation or "")[:3000]})
    else:
        chk.cov["traces_validated_against_impl"] += len(traces)
    chk.notes.setdefault("trace_events", {})[label] = n
    return r.ok


def run(tier):
    chk = Check("C10", tier)
    rng = random.Random(common.seed())
    common.build_harness()
    cfgs = ["Loader_quick.cfg"] if tier == "quick" else ["Loader_thorough.cfg", "Loader_broken.cfg"]
    cfg = ", ".join(cfgs)
    groups = {}
    for one in cfgs:
        r = run_tlc("Loader", one, workers=8 if tier == "quick" else 16, timeout=3000, xmx="16g")
        chk.add_tlc(r)
        if not r.ok:
            chk.violation("C10|design", "Loader.tla violates an invariant under %s" % one, {"tlc": r.violation})
        # group the terminal states by input
        for c in r.cases:
            k = (json.dumps(c["G"], sort_keys=True), tuple(sorted(c["broken"])))
            g = groups.setdefault(k, {"G": c["G"], "broken": set(c["broken"]), "spec": c, "allowed": []})
            if c["kind"] == "ok" and c["compiled"] not in g["allowed"]:
                g["allowed"].append(c["compiled"])
    keys = list(groups)
    if tier == "thorough" and len(keys) > 60000:
        # replay a seeded sample of the (large) thorough family, all of the quick one is inside it
        keys = rng.sample(keys, 60000)
        chk.cov["exhaustive"] = False
    else:
        chk.cov["exhaustive"] = True
    cases, meta = [], []
    for k in keys:
        g = groups[k]
        cases.append(render(g["G"], g["broken"]))
        meta.append((g, "canonical"))
        cases.append(render(g["G"], g["broken"], rng))
        meta.append((g, "aliased"))
        cc, names = render_colliding(g["G"], g["broken"])
        if cc is not None:
            cases.append(cc)
            meta.append((g, ("colliding", names)))
    obs = run_oalv_parallel("load", cases, jobs=12)
    nontrivial = 0
    traces = []
    obs_recs = []
    ncoll = 0
    for (g, label), o in zip(meta, obs):
        CURRENT_NAMES.clear()
        if isinstance(label, tuple):
            CURRENT_NAMES.update(label[1])
            label = label[0]
            ncoll += 1
        compare(chk, g["G"], g["broken"], g["allowed"], g["spec"], o, label)
        if label == "canonical":
            if sum(len(v) for v in g["G"].values()) >= 2:
                nontrivial += 1
            if o.get("outcome") == "ok":
                traces.append(events_of(g["G"], g["broken"], o))
        if o.get("outcome") == "ok":
            obs_recs.append(obs_record(g["G"], g["broken"], o))
    CURRENT_NAMES.clear()
    chk.notes["colliding_renderings"] = ncoll
    if ncoll == 0:
        raise common.ToolError("no colliding rendering (a missing import spelled like an existing module's import) was produced")
    chk.cov["evaluations"] = len(cases)
    chk.cov["distinct_nontrivial"] = nontrivial
    chk.cov["traces_validated_against_impl"] += len(cases)
    if keys:
        g = groups[keys[len(keys) // 2]]
        chk.sample({"graph": g["G"], "spec_kind": g["spec"]["kind"], "spec_loaded": g["spec"]["loaded"], "allowed_compile_orders": g["allowed"][:3]})
    judge_observations(chk, obs_recs, "family")
    # (T) trace validation: a sample of the family and larger random graphs
    rng.shuffle(traces)
    fam = traces[:400 if tier == "quick" else 3000]
    if fam:
        validate_traces(chk, fam, "family")
    nbig = 150 if tier == "quick" else 1500
    maxn = 8 if tier == "quick" else 12
    big_cases, big_G = [], []
    for _ in range(nbig):
        G = random_graph(rng, rng.randint(4, maxn))
        big_G.append(G)
        big_cases.append(render(G, set(), rng))
    big_obs = run_oalv_parallel("load", big_cases, jobs=12)
    big_traces = []
    big_obs_recs = []
    for G, o in zip(big_G, big_obs):
        if o.get("outcome") == "skipped":
            continue
        if o.get("outcome") != "ok":
            chk.violation("C10|crash|%s" % o.get("outcome"), "module::load %s on a random graph" % o.get("outcome"), {"G": G, "obs": o})
            continue
        big_traces.append(events_of(G, set(), o))
        big_obs_recs.append(obs_record(G, set(), o))
    judge_observations(chk, big_obs_recs, "random")
    if big_traces:
        validate_traces(chk, big_traces, "random")
        chk.sample({"random_graph": big_G[0], "trace_head": big_traces[0][1:8]})
    chk.cov["evaluations"] += len(big_cases)
    chk.cov["rule"] = ("every import graph over the configured modules/targets with at most MaxImports `use` statements per module "
                       "(unreachable modules canonically empty), each rendered twice (canonical and aliased spellings); non-trivial = at "
                       "least two import statements in total; graphs are distinct functions; plus seeded random graphs of up to %d modules "
                       "validated as traces" % maxn)
    chk.assumptions = [
        "bounded: module count, imports per module and missing targets of spec/mc/%s; larger graphs only by seeded sampling" % cfg,
        "when more than one error is present only the class of result (missing/syntax vs cycle vs ok) is compared, and a reported missing import must be a missing import of a reachable module",
        "the recording loader is an in-memory Loader implementation; the file-system loaders of the CLI/LSP are covered by C13/C15",
    ]
    return chk.finish()


def replay(path):
    d = json.load(open(path))
    c = d["case"]
    common.build_harness()
    if "G" in c:
        case = render(c["G"], set(c.get("broken", [])))
        o = common.run_oalv("load", [case])[0]
        print("graph:", json.dumps(c["G"]))
        print("specification:", json.dumps(c.get("spec")))
        print("real calls:", json.dumps(o.get("calls")))
        print("real result:", json.dumps(o.get("result")))
    return 0
