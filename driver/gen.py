"""Random composite programs in the abstract syntax of spec/Ast.tla.

The families of spec/Families.tla are exhaustive but each member exercises one construct; the
generator here composes the same constructors into larger programs (several declarations of
different sorts, functions with several parameters, an imported module, recursion, nesting) so
that the specifications are used as oracles (file mode of KindsMC / EvalAbsMC / DenMC, one
initial state per generated program) well outside the shapes they were written against.

Generation is sort-directed so that most programs are accepted (the antecedent of most
properties); with a small probability a sub-expression of the wrong sort is produced so that
rejections are exercised too.  Everything is driven by one random.Random instance."""
import random

PRIMS = ["num", "str", "bool", "int", "uri"]
METHODS = ["get", "put", "post", "patch", "delete", "options", "head"]
MEDIA = ["application/json", "text/plain", "application/xml"]
STATUS = ["200", "201", "204", "400", "404", "4XX", "5XX", "500"]
# numbers that are no HTTP status (a located error where a status is wanted), up to the widths of the integer types involved
NOSTATUS = ["0", "99", "600", "65535", "65536", "4294967296", "18446744073709551615"]


def N(k, s="", q="", n=0, a=None):
    return {"k": k, "s": s, "q": q, "n": n, "a": list(a or []), "ann": []}


class Entry:
    def __init__(self, name, sort, params=None, mod="m1", ref=False):
        self.name, self.sort, self.params, self.mod, self.ref = name, sort, params, mod, ref


def AE(key, val, ty, w="inline"):
    return {"key": key, "val": val, "ty": ty, "w": w}


class Gen:
    def __init__(self, rng, p_bad=0.04, max_depth=3, p_ann=0.0, shadow=0.0):
        self.rng = rng
        self.p_ann = p_ann
        self.shadow = shadow          # probability that a binder takes the name of another binder in scope
        self.nann = 0
        self.p_bad = p_bad
        self.max_depth = max_depth
        self.env = []            # entries visible where we are generating
        self.quals = {}          # module -> qualifier ("" = unqualified import) for the module being generated
        self.cur = "m1"
        self.seg = 0
        self.recs = []           # rec binders in scope
        self.self_name = None    # the declaration being generated (for direct recursion)

    # ---- helpers ------------------------------------------------------------------------------
    def pick(self, xs):
        return xs[self.rng.randrange(len(xs))]

    def chance(self, p):
        return self.rng.random() < p

    def var_of(self, e):
        q = "" if e.mod == self.cur else self.quals.get(e.mod, "")
        return N("var", e.name, q)

    def candidates(self, sort, fn):
        out = []
        for e in self.env:
            if (e.params is not None) != fn:
                continue
            if e.sort == sort or (sort == "schema" and e.sort in ("obj", "uri", "rel")) or (sort == "contentlike" and e.sort in ("content", "schema", "obj")) \
                    or (sort == "urilike" and e.sort == "uri"):
                out.append(e)
        return out

    def ref_or(self, sort, d, make):
        """use a declared name / function of the wanted sort, or build the expression"""
        r = self.rng.random()
        if r < 0.22:
            c = self.candidates(sort, False)
            if c:
                return self.var_of(self.pick(c))
        elif r < 0.34 and d > 0:
            c = self.candidates(sort, True)
            if c:
                f = self.pick(c)
                return N("app", a=[self.var_of(f)] + [self.expr(ps, d - 1) for ps in f.params])
        return make()

    def expr(self, sort, d):
        if self.chance(self.p_bad):
            sort = self.pick(["schema", "obj", "content", "xfer", "rel", "uri", "status", "text", "prop"])
        return self.annotate(getattr(self, "g_" + sort)(d))

    def annotate(self, n):
        """annotations written on literal constructs (not on uses of names: the precedence of use-site annotations through
        parameters is the subject of known findings)"""
        if self.p_ann <= 0 or not self.chance(self.p_ann) or n.get("ann"):
            return n
        self.nann += 1
        k = self.nann
        w = self.pick(["inline", "inline", "line"])
        anns = []
        if n["k"] == "prim":
            if n["s"] in ("num", "int"):
                anns = [AE("minimum", str(k % 7), "n", w)] + ([AE("maximum", str(10 + k), "n", w)] if k % 2 else [])
            elif n["s"] == "str":
                anns = [AE("pattern", "^p%d+$" % k, "s", w)] if k % 2 else [AE("minLength", str(k % 5), "n", w), AE("format", "date", "s", w)]
            anns.append(AE("description", "prim %d" % k, "s", w))
            if k % 4 == 0:                                      # the type's default for properties without a mark
                anns.append(AE("required", "true" if k % 8 else "false", "b", w))
        elif n["k"] in ("obj", "arr"):
            anns = [AE("description", "desc %d" % k, "s", w)] + ([AE("title", "title %d" % k, "s", w)] if k % 2 else [])
        elif n["k"] == "op" and n["s"] in ("|", "~", "&"):
            anns = [AE("title", "op %d" % k, "s", w)]
        elif n["k"] == "prop":
            anns = [AE("description", "prop %d" % k, "s", "line")] + ([AE("required", "true" if k % 2 else "false", "b", "line")] if k % 3 == 0 else [])
        elif n["k"] == "cnt":
            anns = [AE("description", "content %d" % k, "s", w)]
        elif n["k"] == "xfer":
            anns = [AE("summary", "sum %d" % k, "s", "line")] + ([AE("operationId", "op%d" % k, "s", "line")] if "," not in n["s"] else []) + ([AE("tags", "t%d,u%d" % (k % 3, k % 2), "l", "line")] if k % 2 else []) \
                + ([AE("description", "xfer %d" % k, "s", "line")] if k % 3 == 0 else [])
        if anns:
            n = dict(n)
            n["ann"] = anns
        return n

    # ---- sorts --------------------------------------------------------------------------------
    def g_schema(self, d):
        def make():
            if d <= 0:
                return N("prim", self.pick(PRIMS))
            r = self.rng.random()
            if r < 0.25:
                return N("prim", self.pick(PRIMS))
            if r < 0.50:
                return self.g_obj(d)
            if r < 0.62:
                return N("arr", a=[self.expr("schema", d - 1)])
            if r < 0.74:
                return N("op", self.pick(["|", "~"]), a=[self.expr("schema", d - 1) for _ in range(self.rng.randint(2, 3))])
            if r < 0.80:
                return self.g_uri(d - 1)
            if r < 0.86 and d >= 2:
                return self.g_rel(d - 1)
            if r < 0.93 and d >= 2:
                x = "r%d" % len(self.recs)
                if self.shadow and self.chance(self.shadow):
                    names = [e.name for e in self.env if not e.name.startswith("@")] + list(self.recs)
                    if names:
                        x = self.pick(names)
                self.recs.append(x)
                body = N("obj", a=[N("prop", "val", n=0, a=[self.expr("schema", d - 2)]),
                                   N("prop", "next", n=self.pick([0, 2]), a=[self.pick([N("var", x), N("arr", a=[N("var", x)])])])])
                self.recs.pop()
                return N("rec", x, a=[body])
            if self.recs:
                return N("var", self.pick(self.recs))
            if self.self_name and self.chance(0.5):
                return N("arr", a=[N("var", self.self_name)])
            return N("prim", self.pick(PRIMS))
        return self.ref_or("schema", d, make)

    def g_obj(self, d):
        def make():
            if d > 0 and self.chance(0.15):
                return N("op", "&", a=[self.expr("obj", d - 1) for _ in range(2)])
            k = self.rng.randint(0, 3)
            names = self.rng.sample(["a", "b", "c", "id", "name", "items"], k)
            return N("obj", a=[self.g_propn(nm, d - 1) for nm in names])
        return self.ref_or("obj", d, make)

    def lit_obj(self, d):
        k = self.rng.randint(0, 3)
        names = self.rng.sample(["a", "b", "c", "id", "name", "items"], k)
        return N("obj", a=[self.g_propn(nm, d - 1) for nm in names])

    def g_propn(self, nm, d):
        p = N("prop", nm, n=self.pick([0, 0, 1, 2]), a=[self.expr("schema", max(d, 0))])
        if p["n"] == 0 and self.chance(0.1):
            return N("un", self.pick(["!", "?"]), a=[p])
        return p

    def g_prop(self, d):
        return self.g_propn(self.pick(["p", "q", "w"]), d)

    def g_status(self, d):
        def make():
            v = self.pick(NOSTATUS) if self.chance(self.p_bad) else self.pick(STATUS)
            return N("lit", "status" if v.endswith("XX") else "num", v)       # a numeric code is a number literal
        return self.ref_or("status", d, make)

    def g_text(self, d):
        def make():
            return N("lit", "str", self.pick(MEDIA))
        return self.ref_or("text", d, make)

    def g_content(self, d):
        def make():
            metas = []
            if self.chance(0.5):
                metas.append(N("meta", "media", a=[self.expr("text", 0)]))
            if self.chance(0.6):
                metas.append(N("meta", "status", a=[self.expr("status", 0)]))
            if self.chance(0.3):
                metas.append(N("meta", "headers", a=[self.expr("obj", min(d, 1))]))
            self.rng.shuffle(metas)
            body = [self.expr("schema", d - 1)] if self.chance(0.8) or not metas else []
            return N("cnt", n=len(metas), a=metas + body)
        return self.ref_or("content", d, make)

    def g_contentlike(self, d):
        if self.chance(0.7):
            return self.g_content(d)
        return self.expr("schema", d - 1)

    def g_ranges(self, d):
        def make():
            if self.chance(0.45):
                return N("op", "::", a=[self.g_contentlike(d) for _ in range(self.rng.randint(2, 3))])
            return self.g_contentlike(d)
        return self.ref_or("ranges", d, make)

    def g_xfer(self, d):
        def make():
            ms = self.rng.sample(METHODS, self.rng.randint(1, 2))
            a = []
            n = 0
            if self.chance(0.3):
                a.append(self.lit_obj(min(d, 1)))         # transfer parameters are an object literal in the grammar
                n |= 1
            if self.chance(0.4):
                a.append(self.g_contentlike(d - 1))
                n |= 2
            a.append(self.g_ranges(d - 1))
            return N("xfer", ",".join(ms), n=n, a=a)
        return self.ref_or("xfer", d, make)

    def g_uri(self, d, unique=False):
        def make():
            segs = []
            k = self.rng.randint(1, 3)
            used = set()
            for i in range(k):
                if i > 0 and self.chance(0.35):
                    nm = self.pick([x for x in ["id", "key", "n"] if x not in used] or ["z%d" % i])
                    used.add(nm)
                    segs.append(N("uvar", a=[N("prop", nm, n=0, a=[N("prim", self.pick(["num", "str", "int"]))])]))
                else:
                    self.seg += 1
                    segs.append(N("seg", "s%d" % self.seg))
            if self.chance(0.2):
                return N("uri", n=1, a=segs + [self.lit_obj(min(max(d, 0), 1))])      # so are URI parameters
            return N("uri", a=segs)
        if unique:
            return make()
        return self.ref_or("uri", d, make)

    def g_urilike(self, d):
        return self.g_uri(d)

    def g_rel(self, d, unique=False):
        def make():
            xs = []
            left = list(METHODS)
            for _ in range(self.rng.randint(1, 2)):
                x = self.expr("xfer", d)
                if x["k"] == "xfer":
                    ms = [m for m in x["s"].split(",") if m in left]
                    if not ms:
                        continue
                    for m in ms:
                        left.remove(m)
                    x["s"] = ",".join(ms)
                xs.append(x)
            if not xs:
                xs = [N("xfer", "get", a=[N("cnt", a=[])])]
            return N("rel", a=[self.g_uri(d, unique=unique)] + xs)
        if unique:
            return make()
        return self.ref_or("rel", d, make)

    # ---- declarations and programs ------------------------------------------------------------
    def decl(self, name, sort, d, params=None, ref=False):
        saved_env = list(self.env)
        ps = []
        if params:
            for i, s in enumerate(params):
                pn = "x%d" % (i + 1)
                if self.shadow and self.chance(self.shadow):
                    names = [e.name for e in saved_env if not e.name.startswith("@") and e.name not in ps]
                    if names:
                        pn = self.pick(names)
                ps.append(pn)
                self.env.append(Entry(pn, s, None, self.cur))
        self.self_name = name if (sort in ("schema", "obj") and not params and self.chance(0.3)) else None
        body = self.expr(sort, d)
        self.self_name = None
        self.env = saved_env
        dann = []
        # (not on aliases and applications: annotations that reach a shared recursive component from a use site are the
        # subject of a directed family member and a known finding)
        if self.p_ann > 0 and sort in ("schema", "obj") and body["k"] not in ("var", "app") and self.chance(self.p_ann):
            self.nann += 1
            dann = [AE("description", "decl %d" % self.nann, "s", "line")]
        if ref:
            st = N("decl", name, "@", 0, [body])
        else:
            st = N("decl", name, "", len(ps), [N("bind", p) for p in ps] + [body])
        st["ann"] = dann
        return st

    def module(self, mod, ndecl, prefix):
        self.cur = mod
        stmts = []
        sorts = ["schema", "obj", "schema", "content", "xfer", "uri", "status", "text", "ranges", "rel"]
        for i in range(ndecl):
            sort = self.pick(sorts)
            name = "%s%d" % (prefix, i + 1)
            params = None
            ref = False
            r = self.rng.random()
            if r < 0.3:
                params = [self.pick(["schema", "schema", "obj", "content", "status", "text"]) for _ in range(self.rng.randint(1, 2))]
            elif r < 0.4 and sort in ("schema", "obj"):
                ref = True
                name = "@" + name
            st = self.decl(name, sort, self.rng.randint(1, self.max_depth), params, ref)
            stmts.append(st)
            self.env.append(Entry(name, sort, params, mod, ref))
        return stmts

    def program(self):
        mods = {}
        uses = []
        if self.chance(0.45):
            lib = self.module("m2", self.rng.randint(1, 4), "e")
            mods["m2"] = lib
            q = self.pick(["", "lib", "k"])
            self.quals = {"m2": q}
            uses.append(N("use", "m2", q))
        main = self.module("m1", self.rng.randint(1, 6), "d")
        ress = []
        for _ in range(self.rng.randint(1, 3)):
            ress.append(N("res", a=[self.g_rel(self.rng.randint(1, self.max_depth), unique=True)]))
        body = main + ress
        if self.chance(0.5):
            self.rng.shuffle(body)
        mods["m1"] = uses + body
        return {"main": "m1", "mods": mods}


def programs(seed, count, p_bad=0.04, max_depth=3, p_ann=0.0, shadow=0.0):
    rng = random.Random(seed)
    out = []
    for _ in range(count):
        g = Gen(random.Random(rng.getrandbits(48)), p_bad=p_bad, max_depth=max_depth, p_ann=p_ann, shadow=shadow)
        out.append(g.program())
    return out


def size(prog):
    def sz(n):
        return 1 + sum(sz(c) for c in n["a"])
    return sum(sz(st) for m in prog["mods"].values() for st in m)


if __name__ == "__main__":
    import sys
    import render
    for p in programs(int(sys.argv[1]) if len(sys.argv) > 1 else 1, 5):
        rp = render.render_program(p)
        for f, t in rp["files"].items():
            print("//", f, size(p))
            print(t)
