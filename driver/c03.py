"""C03 — every emitted document is a closed, structurally valid OpenAPI 3 description.

(S) TLC: Emit.tla - over every pair of different URI patterns of up to two segments (literals with
    case variants and the name `root`, variables, the root segment), method sets and up to three
    references of every kind: RefsClosed / NoDanglingComponents (a reference is inlined at its uses
    iff it is skipped at registration), PathParamsMatch (variables of the path key and required path
    parameters are in bijection); a second configuration checks OpIdsUnique, where TLC itself finds
    the pairs of resources whose synthesized operationIds collide.
(O) every pair is rendered and compiled by the real pipeline; an independent validator (validate.py)
    checks the emitted document: $ref closure, path variables <-> required path parameters,
    response keys, unique operationIds, and the harness checks that the YAML text parses back to the
    same document.  The validator is also applied to every document of the PosShape/FnPos families,
    the recursion shapes, the determinism programs, the repository corpus, and to documents merged
    with base descriptions.
"""
import json
import random

import common
import corpus
import progs
import validate
from common import Check, run_tlc, run_oalv_parallel


def N(k, s="", q="", n=0, a=()):
    return {"k": k, "s": s, "q": q, "n": n, "a": list(a)}


def uri_ast(u):
    segs = []
    for s in u:
        if s["k"] == "lit":
            segs.append(N("seg", s["n"]))
        else:
            segs.append(N("uvar", a=[N("prop", s["n"], a=[N("prim", "str")])]))
    return N("uri", a=segs)


def pair_program(u1, u2):
    c0 = N("cnt")
    stmts = [N("res", a=[N("rel", a=[uri_ast(u), N("xfer", "get", a=[c0])])]) for u in (u1, u2)]
    return {"main": "m1", "mods": {"m1": stmts}}


def classify(u1, u2):
    def lab(s):
        return ("root" if s["n"] == "" else s["n"].lower())
    kinds = set()
    for a, b in zip(u1, u2):
        if a == b:
            continue
        if a["k"] != b["k"]:
            kinds.add("literal-vs-variable-segment")
        elif a["n"].lower() == b["n"].lower():
            kinds.add("case-insensitive-labels")
        elif {a["n"], b["n"]} == {"", "root"}:
            kinds.add("root-segment-vs-literal-root")
        else:
            kinds.add("other")
    return "+".join(sorted(kinds)) or "same"


def check_docs(chk, label, cases, obs, metas=None):
    n = 0
    for i, (hc, o) in enumerate(zip(cases, obs)):
        if o.get("outcome") != "ok" or o.get("emit", {}).get("result") != "ok":
            continue
        n += 1
        text = list(hc["files"].values())[0]
        if not o["emit"].get("roundtrip"):
            chk.violation("C03|yaml-roundtrip", "%s: the YAML text does not parse back to the same document: %r" % (label, text[:120]),
                          {"files": hc["files"], "reparse_err": o["emit"].get("reparse_err")})
        problems = validate.validate(o.get("doc"))
        if any(kind == "duplicate-path-variable" for kind, _ in problems):
            n -= 1
            continue              # outside the property's domain: the program repeats a variable name inside one path
        for kind, what in problems:
            if kind == "component-is-only-a-reference-cycle":
                continue          # every $ref still resolves; that such a component holds no schema is C09's subject
            key = "C03|%s" % kind
            if kind == "duplicate-operationId":
                # synthesized (no operationId annotation in the sources) or supplied by the user; for the pairs of URI patterns
                # the key names how the two patterns differ (the known finding lists three ways - any other is new)
                if "operationId" in text:
                    key += "|with-user-supplied-ids"
                elif metas and metas[i][2]:
                    # the collision is the one Emit.tla's model of the label synthesis predicts for this pair: the known finding
                    key += "|synthesized-from-lossy-labels"
                else:
                    key += "|not-predicted-by-the-label-model" if metas else "|in-a-generated-program"
            chk.violation(key, "%s: %s in the document of %r" % (label, what, text[:140]), {"files": hc["files"], "problem": [kind, what]})
    chk.notes.setdefault("documents_validated", {})[label] = n
    chk.cov["evaluations"] += n
    return n


ODD_SUFFIX = "$9-x_$"


def run(tier):
    chk = Check("C03", tier)
    rng = random.Random(common.seed())
    common.build_harness()
    r = run_tlc("Emit", "Emit.cfg", workers=8, timeout=1800)
    chk.add_tlc(r)
    if not r.ok:
        chk.violation("C03|design", "Emit.tla violates RefsClosed / PathParamsMatch", {"tlc": r.violation})
    ro = run_tlc("Emit", "Emit_opid.cfg", workers=4, timeout=600)
    chk.add_tlc(ro)
    chk.notes["operationId_uniqueness_in_the_model"] = "violated (TLC finds colliding pairs itself)" if not ro.ok else "holds"
    pairs = r.cases
    if tier == "quick" and len(pairs) > 900:
        coll = [p for p in pairs if p["collide"]]
        rest = [p for p in pairs if not p["collide"]]
        pairs = rng.sample(coll, min(len(coll), 300)) + rng.sample(rest, 600)
    cases = []
    metas = []
    for p in pairs:
        hc, _ = progs.harness_case(pair_program(p["u1"], p["u2"]), style=0, want={"doc": True})
        cases.append(hc)
        metas.append((p["u1"], p["u2"], p["collide"]))
    obs = run_oalv_parallel("compile", cases, jobs=8)
    # the specification's prediction of collisions must be the real one
    for p, hc, o in zip(pairs, cases, obs):
        if o.get("outcome") != "ok" or o.get("emit", {}).get("result") != "ok":
            continue
        dup = any(k == "duplicate-operationId" for k, _ in validate.validate(o.get("doc")))
        if dup != p["collide"]:
            chk.drift("C03|opid-model", "Emit.tla predicts collide=%s, real duplicate=%s for %s" % (p["collide"], dup, list(hc["files"].values())[0][:100]))
        else:
            chk.cov["traces_validated_against_impl"] += 1
    nontrivial = check_docs(chk, "uri-pairs", cases, obs, metas)
    # every other family of documents
    import c04
    import c06
    rt = run_tlc("EvalAbsMC", "EvalAbs_quick.cfg" if tier == "quick" else "EvalAbs_thorough.cfg", workers=8, timeout=1800, java_opts=["-Xss512m"])
    chk.add_tlc(rt)
    # every member, whatever the specification predicts: any document the compiler emits must be valid
    fam = [progs.harness_case(c["prog"], style=i % 4, want={"doc": True})[0] for i, c in enumerate(rt.cases)]
    nontrivial += check_docs(chk, "position-shape-families", fam, run_oalv_parallel("compile", fam, jobs=8))
    # the families of DenMC.tla (URIs and their concatenations, transfers, ranges, schemas, recursive instantiations)
    for f in ("uris", "xfers", "ranges", "schemas", "recinst"):
        rf = run_tlc("DenMC", "Prog_%s.cfg" % f, workers=4, timeout=900, java_opts=["-Xss512m"])
        chk.add_tlc(rf)
        fc = [progs.harness_case(c["prog"], style=i % 4, want={"doc": True})[0] for i, c in enumerate(rf.cases)]
        nontrivial += check_docs(chk, "family-" + f, fc, run_oalv_parallel("compile", fc, jobs=8))
        if f in ("schemas", "recinst"):
            # the same members with every declared name - @references, whose names are component keys, included - respelled
            # with the other characters an identifier may contain ($, -, _, digits)
            fr = [progs.harness_case(progs.rename_consistently(c["prog"], suffix=ODD_SUFFIX, refs=True), style=i % 4, want={"doc": True})[0] for i, c in enumerate(rf.cases)]
            nontrivial += check_docs(chk, "family-" + f + "-respelled", fr, run_oalv_parallel("compile", fr, jobs=8))
    # random composite programs
    import gen
    ps = gen.programs(common.seed() * 1000 + 3, 400 if tier == "quick" else 6000, p_bad=0.0)
    gc = [progs.harness_case(p, style=i % 4, want={"doc": True})[0] for i, p in enumerate(ps)]
    nontrivial += check_docs(chk, "random-composites", gc, run_oalv_parallel("compile", gc, jobs=8))
    gr = [progs.harness_case(progs.rename_consistently(p, suffix=ODD_SUFFIX, refs=True), style=i % 4, want={"doc": True})[0] for i, p in enumerate(ps[:len(ps) // 2])]
    nontrivial += check_docs(chk, "random-composites-respelled", gr, run_oalv_parallel("compile", gr, jobs=8))
    B = progs.B
    texts = c04.rec_shapes() + [t for _, t in corpus.texts() if "use " not in t]
    single = [{"main": B + "m1.oal", "files": {B + "m1.oal": t}, "want": {"doc": True}} for t in texts]
    nontrivial += check_docs(chk, "recursion-shapes-and-corpus", single, run_oalv_parallel("compile", single, jobs=8))
    det = [{"main": B + "main.oal", "files": {B + k: v for k, v in f.items()}, "want": {"doc": True}} for _, f in c06.PROGRAMS]
    nontrivial += check_docs(chk, "determinism-programs", det, run_oalv_parallel("compile", det, jobs=8))
    # with base descriptions: the merged document must stay closed as well
    base = ("openapi: 3.0.3\ninfo: {title: b, version: '1'}\npaths: {/old: {get: {operationId: old, responses: {'200': {description: ok}}}}}\n"
            "components:\n  schemas: {Old: {type: string}}\n  responses: {R: {description: r}}\n")
    withbase = [dict(c, base=base) for c in det + single[:40]]
    nontrivial += check_docs(chk, "with-base", withbase, run_oalv_parallel("compile", withbase, jobs=8))
    chk.cov["distinct_nontrivial"] = nontrivial
    chk.cov["exhaustive"] = tier != "quick"
    chk.cov["rule"] = ("pairs of different URI patterns over {root, a, A, b, literal `root`, variables a and b} up to 2 segments (TLC Init; a seeded sample in the quick tier), "
                       "each compiled and validated; plus every accepted member of the position/shape families, of the Uris/Xfers/Ranges/Schemas/RecInst families of DenMC.tla, seeded random composite programs (gen.py; 400 quick / 6000 thorough), recursion shapes, corpus, determinism programs, and "
                       "documents merged with a base; non-trivial = an emitted document was validated")
    if cases:
        chk.sample({"pair_program": list(cases[0]["files"].values())[0], "spec_collide": pairs[0]["collide"]})
    chk.assumptions = [
        "variable names inside one path are pairwise distinct; user-supplied operationId annotations are unique; the two resources of a pair have different path patterns",
        "bases do not $ref schemas the program does not define",
        "the validator is an independent Python walker over the re-parsed YAML; YAML round-trip equality is evaluated by the harness on the OpenAPI object model",
    ]
    return chk.finish()


def replay(path):
    d = json.load(open(path))
    c = d["case"]
    common.build_harness()
    o = common.run_oalv("compile", [{"main": progs.B + "m1.oal", "files": c["files"], "want": {"doc": True}}])[0]
    print(json.dumps(c["files"]))
    print(validate.validate(o.get("doc")))
    return 1 if validate.validate(o.get("doc")) else 0
