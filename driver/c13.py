"""C13 — front ends agree, and the CLI writes the target only on success.

(S) TLC: Frontends.tla - WriteIsLast, ExitIffWritten, FailureIsLocatedAndHarmless, FrontEndsAgree,
    ConfigIrrelevant, Terminates over every class of sources x CLI configuration.
(T) sources of every class (accepted; rejected at the lexical, syntax, import, scope, type and
    evaluation phase: hand-written representatives, and class-directed mutations of accepted
    repository programs) are run through the real oal-cli under 12 configurations (options vs
    config file, with/without base, target absent/present with sentinel content), through
    oal_wasm::compile and through one cycle of the real oal-lsp.  The class is hidden from the
    trace: TLC infers it (FrontendsTrace.tla) - the observations of a source are accepted iff one
    class explains all of them, and that class must be the predicted one where one is known.
"""
import json
import os
import random

import common
import corpus
import frontends
from common import Check, run_tlc, run_oalv_parallel, workdir

BASE = "openapi: 3.0.3\ninfo:\n  title: base\n  version: '9'\npaths: {}\n"

HAND = [
    ("ok", {"main.oal": "res / on get -> <{}>;\n"}),
    ("ok", {"main.oal": "// é comment\nlet @a = { 'x! num, 'y [str] };\nres /a/{ 'id int } on get, put : <@a> -> <status=200, @a> :: <status=4XX, {}>;\n"}),
    ("ok", {"main.oal": "use \"m.oal\";\nres / on get -> <t>;\n", "m.oal": "let t = { 'p str };\n"}),
    ("ok", {"main.oal": "use \"sub/m.oal\" as q;\nres /x on get -> <q.t>;\n", "sub/m.oal": "let t = rec x { 'kids [x] };\n"}),
    ("ok", {"main.oal": ""}),
    ("lexical", {"main.oal": "let a = é;\n"}),
    ("lexical", {"main.oal": "res / on get -> <{}>;\n$\n"}),
    ("lexical", {"main.oal": "let a = \"unterminated;\n"}),
    ("lexical", {"main.oal": "let a = 123456789012345678901234567890;\n"}),
    ("lexical", {"main.oal": "use \"m.oal\";\nres / on get -> <t>;\n", "m.oal": "let t = { 'p str } §;\n"}),
    ("syntax", {"main.oal": "let a = ;\n"}),
    ("syntax", {"main.oal": "let a = num\nlet b = str;\n"}),
    ("syntax", {"main.oal": "res / on get -> ;\n"}),
    ("syntax", {"main.oal": "let @f x = x;\n"}),
    ("syntax", {"main.oal": ")\n"}),
    ("syntax", {"main.oal": "use \"m.oal\";\nres / on get -> <t>;\n", "m.oal": "let t = { 'p };\n"}),
    ("import", {"main.oal": "use \"nope.oal\";\nres / on get -> <{}>;\n"}),
    ("import", {"main.oal": "use \"b.oal\";\n", "b.oal": "use \"main.oal\";\n"}),
    ("import", {"main.oal": "use \"main.oal\";\n"}),
    ("import", {"main.oal": "use \"m.oal\";\n", "m.oal": "use \"gone/x.oal\";\nlet t = num;\n"}),
    ("scope", {"main.oal": "res a on get -> <>;\n"}),
    ("scope", {"main.oal": "let a = num;\nlet a = str;\n"}),
    ("scope", {"main.oal": "let f x = y;\n"}),
    ("scope", {"main.oal": "use \"m.oal\" as q;\nres / on get -> <t>;\n", "m.oal": "let t = num;\n"}),
    ("scope", {"main.oal": "use \"m.oal\";\nres / on get -> <t>;\n", "m.oal": "let t = u;\n"}),
    ("type", {"main.oal": "let a = num & num;\n"}),
    ("type", {"main.oal": "res num on get -> <>;\n"}),
    ("type", {"main.oal": "let a = 'p a;\n"}),
    ("type", {"main.oal": "let f x = f;\n"}),
    ("type", {"main.oal": "let a = <> | num;\n"}),
    ("type", {"main.oal": "let @a = <>;\n"}),
    ("type", {"main.oal": "let a = b;\nlet b = a;\n"}),
    ("type", {"main.oal": "use \"m.oal\";\nres / on get -> <t>;\n", "m.oal": "let t = { num };\n"}),
    ("eval", {"main.oal": "res / on get -> <status=999, {}>;\n"}),
    ("eval", {"main.oal": "# description: [\nlet a = num;\nres / on get -> <a>;\n"}),
    ("eval", {"main.oal": "res / on get -> <{}> `{`;\n"}),
    ("eval", {"main.oal": "let s = 42;\nres / on get -> <status=s, {}>;\n"}),
]


def directed(rng, text, toks):
    """class-directed mutations of an accepted single-file program; toks: real tokens [kind, s, e, trivia, ok]"""
    out = []
    nt = [t for t in toks if not t[3]]
    if not nt:
        return out
    # lexical: an unlexable character between two tokens
    t = rng.choice(nt)
    out.append(("lexical", text[:t[1]] + " § " + text[t[1]:]))
    # syntax: a stray closing parenthesis in front of a statement
    starts = [0] + [t[2] for t in nt if t[0] == "ControlSemicolon"]
    s = rng.choice(starts)
    out.append(("syntax", text[:s] + "\n) " + text[s:]))
    out.append(("import", "use \"zz_missing.oal\";\n" + text))
    out.append(("scope", text + "\nres zz_undefined on get -> <>;\n"))
    out.append(("type", text + "\nlet zz_t = num & num;\n"))
    out.append(("eval", text + "\nres /zz_e on get -> <status=999, {}>;\n"))
    return out


HASH = __import__("re").compile(r"hash-[0-9a-f]{64}")


def canon_hashes(yaml_text):
    """generated names of implicit components (hash of the module URL and node) are renamed by first
    occurrence: the CLI and the playground compile the same text at different locations"""
    names = {}

    def sub(m):
        if m.group(0) not in names:
            names[m.group(0)] = "hash-%d" % len(names)
        return names[m.group(0)]
    return HASH.sub(sub, yaml_text)


def obs_record(src, o):
    r = {"predicted": src.get("predicted", ""), "cli": [], "wasm": "none", "lsp": "none"}
    for c in o["cli"]:
        r["cli"].append({"base": c["base"], "config": frontends.mode_of(c["config"]), "existed": c["existed"], "decoy_changed": bool(c.get("decoy_changed")),
                         "exit": c["exit"] if c["exit"] is not None else -1, "changed": bool(c["changed"]), "located": c["located"]})
    w = o.get("wasm")
    if w is not None and w.get("outcome") == "ok":
        r["wasm"] = "ok" if (w["error"] == "" and w["api"] != "") else "error"
    l = o.get("lsp")
    if l is not None and not l["dead"] and not l["hung"]:
        # two load/evaluate cycles on the same sources (from disk, then with the main document opened): the same verdict both times
        # three load/evaluate cycles on the same sources: from disk, with the main document opened, and after a different
        # buffer was opened over it and closed again without saving
        vs = [l["diagnostics"] >= 1, l.get("diagnostics_open", l["diagnostics"]) >= 1, l.get("diagnostics_closed", l["diagnostics"]) >= 1]
        r["lsp"] = "diagnostics" if all(vs) else ("clean" if not any(vs) else "flapping")
    return r


def diagnose(rec):
    """signature of an unexplained source (classification only; the verdict is TLC's)"""
    p = rec["predicted"] or "?"
    exits = sorted(set(c["exit"] for c in rec["cli"]))
    if any(e not in (0, 1) for e in exits):
        return "C13|cli-crash|%s" % p
    if len(exits) > 1:
        return "C13|cli-exit-depends-on-configuration|%s" % p
    fails = exits[0] == 1
    if rec.get("lsp") == "flapping":
        return "C13|lsp-diagnostics-differ-between-cycles-on-the-same-sources|%s" % p
    if any(c.get("decoy_changed") for c in rec["cli"]):
        return "C13|configuration-file-target-written-although-overridden-by-option|%s" % p
    if fails and any(c["changed"] for c in rec["cli"]):
        return "C13|target-touched-on-failure|%s" % p
    if not fails and not all(c["changed"] for c in rec["cli"]):
        return "C13|success-without-target|%s" % p
    if rec["wasm"] != "none" and (rec["wasm"] == "error") != fails:
        return "C13|cli-vs-playground|%s" % p
    if rec["lsp"] != "none" and (rec["lsp"] == "diagnostics") != fails:
        return "C13|cli-vs-lsp-%s|%s" % ("no-diagnostic" if fails else "spurious-diagnostic", p)
    if fails and not all(c["located"] for c in rec["cli"]):
        return "C13|cli-error-not-located|%s" % p
    if rec["predicted"] and ((rec["predicted"] == "ok") == fails):
        return "C13|unexpected-verdict|%s" % p
    return "C13|unexplained|%s" % p


def run(tier):
    chk = Check("C13", tier)
    rng = random.Random(common.seed())
    common.build_harness()
    common.build_bins()
    rp = run_tlc("Frontends", "Frontends_pinned_config.cfg", workers=4, timeout=600)
    chk.notes["model_selftest"] = "Frontends_pinned_config.cfg (configuration file before options): TLC %s" % ("finds the violation itself" if not rp.ok else "finds nothing - the model does not exercise the precedence")
    if rp.ok:
        raise common.ToolError("Frontends_pinned_config.cfg should violate ExitIffWritten/DecoyUntouched")
    r = run_tlc("Frontends", "Frontends.cfg", workers=4, timeout=600)
    chk.add_tlc(r)
    if not r.ok:
        chk.violation("C13|design", "Frontends.tla violates an invariant", {"tlc": r.violation})
    sources = [{"files": f, "main": "main.oal", "predicted": c} for c, f in HAND]
    # accepted single-file corpus programs and their class-directed mutants
    base = [t for _, t in corpus.texts() if "use " not in t]
    cr = run_oalv_parallel("compile", [{"main": "file:///w/main.oal", "files": {"file:///w/main.oal": t}, "want": {}} for t in base])
    okp = [t for t, c in zip(base, cr) if c.get("outcome") == "ok" and c.get("load", {}).get("result") == "ok"
           and c.get("eval", {}).get("result") == "ok" and c.get("emit", {}).get("result") == "ok"]
    rng.shuffle(okp)
    nb = 6 if tier == "quick" else 60
    chosen = okp[:nb]
    lx = run_oalv_parallel("lex", [{"text": t} for t in chosen])
    for t, l in zip(chosen, lx):
        sources.append({"files": {"main.oal": t}, "main": "main.oal", "predicted": ""})
        if l.get("outcome") == "ok":
            for cls, mt in directed(rng, t, l["tokens"]):
                sources.append({"files": {"main.oal": mt}, "main": "main.oal", "predicted": cls})
    configs = [(b, cfg, ex) for b in (False, True) for cfg in (False, True, "both") for ex in (False, True)]
    obs = frontends.run_all(sources, cli_configs=configs, jobs=8, base_text=BASE)
    recs = [obs_record(s, o) for s, o in zip(sources, obs)]
    path = os.path.join(workdir(), "frontends_obs.ndjson")
    with open(path, "w") as f:
        for rec in recs:
            f.write(json.dumps(rec) + "\n")
    tr = run_tlc("FrontendsTrace", "FrontendsObs.cfg", workers=4, timeout=900, env_extra={"OBS": path, "TRACE": path}, tags=("EXPLAINED",))
    chk.add_tlc(tr)
    if not tr.ok:
        raise common.ToolError("FrontendsObs failed: %s" % (tr.violation or "")[:800])
    explained = {}
    for e in tr.lines.get("EXPLAINED", []):
        explained.setdefault(e["l"], []).append(e["cls"])
    per_class = {}
    for i, (s, rec, o) in enumerate(zip(sources, recs, obs)):
        cls = explained.get(i + 1)
        per_class[s.get("predicted") or "(inferred)"] = per_class.get(s.get("predicted") or "(inferred)", 0) + 1
        if cls:
            chk.cov["traces_validated_against_impl"] += 1
            continue
        key = diagnose(rec)
        chk.violation(key, "no class of sources explains the observations of the three front ends on %r (predicted %s): cli %s, playground %s, lsp %s" % (
            s["files"]["main.oal"][:70], s.get("predicted") or "?", [(c["exit"], c["changed"], c["located"]) for c in rec["cli"][:3]], rec["wasm"], rec["lsp"]),
            {"files": s["files"], "predicted": s.get("predicted"), "observations": rec,
             "cli_stderr": o["cli"][0]["stderr"], "lsp_messages": o["lsp"]["messages"] if o.get("lsp") else None})
    # the documents: CLI (no base) and playground produce the same document for accepted single-file sources
    ndoc = 0
    for s, o in zip(sources, obs):
        w = o.get("wasm")
        c0 = [c for c in o["cli"] if not c["base"] and c["exit"] == 0 and c["target"] is not None]
        if w is not None and w.get("outcome") == "ok" and w.get("api") and c0:
            ndoc += 1
            if any(canon_hashes(c["target"]) != canon_hashes(w["api"]) for c in c0):
                chk.violation("C13|document-differs", "oal-cli and the playground entry point emit different documents for %r" % s["files"]["main.oal"][:70],
                              {"files": s["files"], "cli": c0[0]["target"], "wasm": w["api"]})
    chk.cov["evaluations"] = len(sources) * (len(configs) + 2)
    chk.cov["distinct_nontrivial"] = len(sources)
    chk.notes["sources_per_class"] = per_class
    chk.notes["documents_compared"] = ndoc
    chk.cov["rule"] = ("sources: %d hand-written representatives of the 7 classes (single- and multi-module) + accepted repository programs and six "
                       "class-directed mutants of each; every source x 12 CLI configurations (options / configuration file / both with decoys in the file)  + playground + one language-server cycle; all sources are "
                       "distinct and non-trivial (each exercises a complete front-end run)" % len(HAND))
    chk.sample({"source": sources[1]["files"], "predicted": sources[1]["predicted"], "observations": recs[1]})
    chk.sample({"source": sources[16]["files"], "predicted": sources[16]["predicted"], "observations": recs[16]})
    chk.assumptions = [
        "a diagnostic is 'located in the sources' when stderr names one of the source modules by URL (with line and column whenever the span is not empty)",
        "the playground entry point is compared on single-file sources only (it has no file system)",
        "configuration errors (no main/target given, unreadable base) are outside the property's domain",
        "CLI and playground documents are compared up to the generated names of implicit components (hash of module URL and node): the two front ends necessarily compile the text at different locations",
    ]
    return chk.finish()


def replay(path):
    d = json.load(open(path))
    c = d["case"]
    src = {"files": c["files"], "main": "main.oal", "predicted": c.get("predicted") or ""}
    o = frontends.run_all([src], cli_configs=((False, False, True),))[0]
    print("sources:", json.dumps(c["files"]))
    print("cli:", o["cli"][0]["exit"], "changed:", o["cli"][0]["changed"], "located:", o["cli"][0]["located"])
    print("stderr:", o["cli"][0]["stderr"][:600])
    print("playground:", (o["wasm"] or {}).get("error", "")[:200] if o["wasm"] else None)
    print("lsp:", o["lsp"])
    return 0
