"""Program-level part of C07 (filled in with the program families)."""


def run(chk, tier):
    return


def replay(case):
    return 0
