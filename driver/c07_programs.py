"""Program-level part of C07: the verdict of the real compiler (accepted / class of error) on every
member of the PosShape and FnPos families equals the verdict of Kinds.tla (tag(), constrain(), a
reference unifier, type_check and cycles_check on the abstract syntax) - i.e. it coincides with
solvability of the kind constraints - and does not change under permutations of declarations and
consistent renamings of identifiers."""
import json
import random

import common
import progs
import rewrites
from common import run_tlc, run_oalv_parallel


def verdict(o):
    r = progs.real_outcome(o)
    if r["k"] == "REJECTED":
        return "REJECTED:" + str(r.get("cls"))
    if r["k"] in ("OK", "ERROR", "CRASH"):
        return "ACCEPTED"          # evaluation is not part of the inference verdict
    return r["k"]


def run(chk, tier):
    rng = random.Random(common.seed() + 7)
    cfg = "Kinds_quick.cfg" if tier == "quick" else "Kinds_thorough.cfg"
    r = run_tlc("KindsMC", cfg, workers=8, timeout=1800, java_opts=["-Xss512m"])
    chk.add_tlc(r)
    if not r.ok:
        raise common.ToolError("KindsMC failed: %s" % (r.violation or "")[:800])
    members = r.cases
    cases = []
    meta = []
    nvar = 2 if tier == "quick" else 5
    for i, c in enumerate(members):
        hc, _ = progs.harness_case(c["prog"], style=(i + common.seed()) % 4)
        cases.append(hc)
        meta.append((i, "original"))
        variants = progs.permutations_of(c["prog"], limit=nvar + 1, rng=rng)
        for q in variants[:nvar]:
            cases.append(progs.harness_case(q, style=0)[0])
            meta.append((i, "permuted"))
        cases.append(progs.harness_case(progs.rename_consistently(c["prog"]), style=0)[0])
        meta.append((i, "renamed"))
        for q in rewrites.alpha_rename_each(c["prog"])[:2]:
            cases.append(progs.harness_case(q, style=0)[0])
            meta.append((i, "renamed"))              # one binder renamed apart (alpha-conversion)
    obs = run_oalv_parallel("compile", [dict(c, want={}) for c in cases], jobs=8)
    base = {}
    nontrivial = 0
    for (i, kind), hc, o in zip(meta, cases, obs):
        if o.get("outcome") == "skipped":
            continue
        c = members[i]
        v = verdict(o)
        text = hc["files"][progs.B + "m1.oal"]
        payload = {"files": hc["files"], "family": [c["pos"], c["shape"], c["ind"]], "variant": kind,
                   "spec": {"ok": c["ok"], "cls": c["cls"], "phase": c["phase"]}, "real": v}
        if v in ("ABORT", "HANG"):
            chk.violation("C07|program|%s" % v.lower(), "compilation does not terminate normally on %r" % text[:140], payload)
            continue
        if kind == "original":
            base[i] = v
            want = "ACCEPTED" if c["ok"] else "REJECTED:" + c["cls"]
            if v != want:
                chk.violation("C07|program|verdict|spec=%s real=%s" % (want, v),
                              "the real verdict %s differs from solvability of the kind constraints (%s, phase %s) on %r" % (v, want, c["phase"], text[:160]), payload)
            else:
                chk.cov["traces_validated_against_impl"] += 1
            if not c["ok"] or c["ind"] != "direct":
                nontrivial += 1
        elif i in base and v != base[i]:
            chk.violation("C07|program|%s-dependent" % ("order" if kind == "permuted" else "name"),
                          "the verdict changes from %s to %s when declarations are %s: %r" % (base[i], v, kind, text[:160]), payload)
    chk.cov["evaluations"] += len(cases)
    chk.cov["distinct_nontrivial"] += nontrivial
    composites(chk, tier, rng)
    chk.notes["program_families"] = {"members": len(members), "compiled_variants": len(cases)}
    if members:
        k = len(members) // 3
        chk.sample({"program_family": [members[k]["pos"], members[k]["shape"], members[k]["ind"]], "spec_verdict": members[k]["ok"], "spec_phase": members[k]["phase"]})


def composites(chk, tier, rng):
    """random composite programs and the recursion families: Kinds.tla in oracle mode gives the verdict; permutations and
    renamings must not change the real one"""
    import gen
    import oracle
    import render
    ps = gen.programs(common.seed() * 1000 + 7, 500 if tier == "quick" else 6000, p_bad=0.02)
    # dependency graphs over two declarations of every kind (cycles with and without a schema to cut at, side by side) and
    # the recursive instantiations: the verdict includes the well-formedness of recursion
    for famname in ("recgraphs2", "recinst"):
        rf = run_tlc("DenMC", "Prog_%s.cfg" % famname, workers=4, timeout=900, java_opts=["-Xss512m"])
        chk.add_tlc(rf)
        fam = [c["prog"] for c in rf.cases]
        if tier == "quick" and len(fam) > 400:
            fam = rng.sample(fam, 400)
        ps = ps + fam
    rps = [render.render_program(p, style=i % 4) for i, p in enumerate(ps)]
    oracle.crosscheck(ps, rps)
    ks, rs = oracle.kinds(ps, chunk=500)
    for r in rs:
        chk.add_tlc(r)
    cases, meta = [], []
    for i, (p, rp) in enumerate(zip(ps, rps)):
        cases.append({"main": rp["main"], "files": rp["files"], "want": {}})
        meta.append((i, "original"))
        for q in progs.permutations_of(p, limit=6, rng=rng)[:5]:
            cases.append(progs.harness_case(q, style=0)[0])
            meta.append((i, "permuted"))
        cases.append(progs.harness_case(progs.rename_consistently(p), style=0)[0])
        meta.append((i, "renamed"))
        for q in rewrites.alpha_rename_each(p)[:2]:
            cases.append(progs.harness_case(q, style=0)[0])
            meta.append((i, "renamed"))
    obs = run_oalv_parallel("compile", cases, jobs=8)
    base = {}
    agree = 0
    for (i, kind), hc, o in zip(meta, cases, obs):
        if o.get("outcome") == "skipped" or ks[i] is None:
            continue
        v = verdict(o)
        k = ks[i]
        text = hc["files"][hc["main"]]
        payload = {"files": hc["files"], "family": ["composite", str(i), ""], "variant": kind, "spec": {"ok": k["ok"], "cls": k["cls"], "phase": k["phase"]}, "real": v}
        if v in ("ABORT", "HANG"):
            chk.violation("C07|program|%s" % v.lower(), "compilation does not terminate normally on %r" % text[:140], payload)
            continue
        if kind == "original":
            base[i] = v
            want = "ACCEPTED" if k["ok"] else "REJECTED:" + k["cls"]
            if v != want:
                chk.violation("C07|program|verdict|spec=%s real=%s" % (want, v),
                              "the real verdict %s differs from solvability of the kind constraints (%s, phase %s) on %r" % (v, want, k["phase"], text[:200]), payload)
            else:
                agree += 1
                chk.cov["traces_validated_against_impl"] += 1
        elif i in base and v != base[i]:
            chk.violation("C07|program|%s-dependent" % ("order" if kind == "permuted" else "name"),
                          "the verdict changes from %s to %s when declarations are %s: %r" % (base[i], v, kind, text[:200]), payload)
    chk.cov["evaluations"] += len(cases)
    chk.cov["distinct_nontrivial"] += len(ps)
    chk.notes["composite_programs"] = {"generated": len(ps), "verdict_equal_to_Kinds.tla": agree, "rejected_by_both": sum(1 for k in ks if k and not k["ok"]), "compiled_variants": len(cases)}


def replay(case):
    common.build_harness()
    o = common.run_oalv("compile", [{"main": progs.B + "m1.oal", "files": case["files"], "want": {}}])[0]
    for k, v in case["files"].items():
        print(k)
        print(v)
    print("specification:", json.dumps(case.get("spec")))
    print("real:", verdict(o))
    return 0
