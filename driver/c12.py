"""C12 — parser memoisation is invisible and keeps parsing linear.

(S) TLC: PegMC.tla (Peg.tla engine + OxlipGrammar.tla) over every token sequence of the
    configured families (fixed prefix + every tail up to k tokens over a sub-alphabet):
    MemoTransparent, CacheSound, Lossless, Progress, Linear, TriviaInvisible.
(O) every member with the predicted tree, end cursor, error and the exact counters (reads, hits,
    cache size, arena size; uncached reads) is replayed through the real parser with and
    without cache (oalv parse-kinds, hook H1) and compared exactly.
(T) token sequences of real programs (repository corpus, token-level mutants, deep nests) are
    parsed by the real parser; TLC judges outcome and counters in oracle mode for sequences of
    up to 60 tokens; the linear bound is evaluated on every run (up to thousands of tokens);
    cached/uncached equality is checked in the real code wherever the uncached run is feasible.
"""
import json
import os
import random

import common
import corpus
import peg
from common import Check, run_tlc, run_oalv_parallel, workdir

LINEAR_K = 40
FAMILIES = ["expr", "obj", "rel", "app", "cnt", "uri", "stmt"]
JAVA = ["-Xss512m"]


def tree_flat(t):
    """harness nested tree -> pre-order list of {k, a} as Peg.tla's Flat"""
    out = []

    def go(n):
        if isinstance(n, int):
            out.append({"k": "Leaf", "a": n})
        elif isinstance(n, dict):
            out.append({"k": "Token", "a": 0})
        else:
            out.append({"k": n[0], "a": len(n) - 1})
            for c in n[1:]:
                go(c)
    go(t)
    return out


def real_outcome(run, ntok):
    if run.get("ok"):
        rest = run.get("rest")
        return {"ok": True, "rest": ntok + 1 if rest is None else rest[0] + 1, "tree": tree_flat(run.get("tree")), "err": "", "at": 0}
    e = run["err"]
    return {"ok": False, "rest": 0, "tree": [], "err": e[0], "at": e[1] + 1}


def compare_member(chk, c, obs, fam):
    toks = c["toks"]
    n = len(toks)
    payload = {"kinds": toks, "family": fam, "spec": {k: c[k] for k in c if k != "toks"}}
    if obs.get("outcome") != "ok":
        if obs.get("outcome") == "skipped":
            return
        chk.violation("C12|parser-%s" % obs.get("outcome"), "the real parser %s on %s" % (obs.get("outcome"), " ".join(toks)), payload)
        return
    rc = real_outcome(obs["cached"], n)
    payload["observed"] = {"cached": rc, "reads": obs["cached"]["reads"], "hits": obs["cached"]["hits"],
                           "cache": obs["cached"]["cache"], "arena": obs["cached"]["arena"]}
    if "uncached" in obs:
        ru = real_outcome(obs["uncached"], n)
        payload["observed"]["uncached"] = ru
        payload["observed"]["ureads"] = obs["uncached"]["reads"]
        if ru != rc:
            chk.violation("C12|memo-visible", "cached and uncached parse differ on: %s" % " ".join(toks), payload)
            return
    if rc != c["c"]:
        # the grammar model no longer mirrors parser.rs; memo transparency and linearity are still judged on the real runs
        chk.drift("C12|tree", "real parse result differs from OxlipGrammar.tla's, e.g. on: %s" % " ".join(toks))
        return
    if obs["cached"]["reads"] > LINEAR_K * (n + 1):
        chk.violation("C12|not-linear", "%d reads for %d tokens: %s" % (obs["cached"]["reads"], n, " ".join(toks)), payload)
        return
    for k in ("reads", "hits", "cache", "arena"):
        if obs["cached"][k] != c[k]:
            chk.drift("C12|counter|%s" % k, "%s = %d, Peg.tla predicts %d, e.g. on: %s" % (k, obs["cached"][k], c[k], " ".join(toks)))
            return
    if c.get("unc") and "uncached" in obs:
        if obs["uncached"]["reads"] != c["ureads"] or obs["uncached"]["arena"] != c["uarena"]:
            chk.drift("C12|counter|uncached", "uncached reads/arena %d/%d, Peg.tla predicts %d/%d, e.g. on: %s" % (
                obs["uncached"]["reads"], obs["uncached"]["arena"], c["ureads"], c["uarena"], " ".join(toks)))


def lex_kinds(texts):
    """token kinds (trivia included) of real texts, via the real lexer"""
    res = run_oalv_parallel("lex", [{"text": t} for t in texts])
    out = []
    for r in res:
        if r.get("outcome") != "ok":
            out.append(None)
        else:
            out.append([t[0] for t in r["tokens"]])
    return out


def mutate(rng, kinds):
    k = list(kinds)
    if not k:
        return k
    for _ in range(rng.randint(1, 3)):
        op = rng.choice(["del", "dup", "swap", "splice"])
        i = rng.randrange(len(k))
        if op == "del" and len(k) > 1:
            del k[i]
        elif op == "dup":
            k.insert(i, k[i])
        elif op == "swap" and len(k) > 1:
            j = rng.randrange(len(k))
            k[i], k[j] = k[j], k[i]
        else:
            j = rng.randrange(len(k))
            a, b = min(i, j), max(i, j)
            k[a:b] = k[a:b][::-1] if rng.random() < 0.3 else k[a:b] + k[a:min(b, a + 3)]
    return k


def nests(depth_list):
    out = []
    for d in depth_list:
        for (o, c, inner) in (("ControlParenLeft", "ControlParenRight", ["LiteralNumber"]),
                              ("ControlBracketLeft", "ControlBracketRight", ["PrimitiveNum"]),
                              ("ControlBraceLeft", "ControlBraceRight", []),
                              ("ControlChevronLeft", "ControlChevronRight", [])):
            mid = inner
            if o == "ControlBraceLeft":
                toks = ["KeywordLet", "IdentifierValue", "OperatorEqual"] + (["ControlBraceLeft", "Property"] * d) + ["PrimitiveNum"] + ["ControlBraceRight"] * d + ["ControlSemicolon"]
            else:
                toks = ["KeywordLet", "IdentifierValue", "OperatorEqual"] + [o] * d + mid + [c] * d + ["ControlSemicolon"]
            out.append(toks)
    return out


def construct_nests(depth_list):
    """every self-embedding construct of the grammar nested d times (not only brackets): content in a content's
    meta-data, content with meta-data and body, headers, URI parameters and variables, rec, property chains,
    applications, transfers in transfer ranges, operator chains, unary chains"""
    L = ["KeywordLet", "IdentifierValue", "OperatorEqual"]
    shapes = [
        ("content-in-status", ["ControlChevronLeft", "ContentStatus", "OperatorEqual"], ["LiteralNumber"], ["ControlChevronRight"]),
        ("content-in-headers", ["ControlChevronLeft", "ContentHeaders", "OperatorEqual", "ControlBraceLeft", "Property"], ["PrimitiveNum"], ["ControlBraceRight", "ControlChevronRight"]),
        ("content-meta-and-body", ["ControlChevronLeft", "ContentStatus", "OperatorEqual", "LiteralNumber", "ControlComma"], ["PrimitiveNum"], ["ControlChevronRight"]),
        ("content-media-only", ["ControlChevronLeft", "ContentMedia", "OperatorEqual"], ["LiteralString"], ["ControlChevronRight"]),
        ("uri-params", ["PathElementSegment", "OperatorQuestionMark", "ControlBraceLeft", "Property"], ["PrimitiveNum"], ["ControlBraceRight"]),
        ("uri-variable", ["PathElementRoot", "ControlBraceLeft", "Property"], ["PrimitiveNum"], ["ControlBraceRight"]),
        ("rec", ["KeywordRec", "IdentifierValue"], ["PrimitiveNum"], []),
        ("property-chain", ["Property"], ["PrimitiveNum"], []),
        ("application", ["IdentifierValue", "ControlParenLeft"], ["PrimitiveNum"], ["ControlParenRight"]),
        ("transfer-in-range", ["MethodGet", "OperatorArrow"], ["PrimitiveNum"], []),
        ("transfer-in-domain", ["MethodPut", "OperatorColon", "ControlParenLeft"], ["PrimitiveNum"], ["ControlParenRight", "OperatorArrow", "PrimitiveNum"]),
        ("relation-in-range", ["PathElementSegment", "KeywordOn", "MethodGet", "OperatorArrow"], ["PrimitiveNum"], []),
        ("sum-of-parens", ["ControlParenLeft", "PrimitiveNum", "OperatorVerticalBar"], ["PrimitiveNum"], ["ControlParenRight"]),
        ("range-of-contents", ["ControlChevronLeft", "PrimitiveNum", "ControlChevronRight", "OperatorDoubleColon"], ["PrimitiveNum"], []),
        ("array-of-objects", ["ControlBracketLeft", "ControlBraceLeft", "Property"], ["PrimitiveNum"], ["ControlBraceRight", "ControlBracketRight"]),
        ("paren-unary", ["ControlParenLeft"], ["Property", "PrimitiveNum"], ["ControlParenRight", "OperatorQuestionMark"]),
    ]
    out = []
    for d in depth_list:
        for name, pre, mid, post in shapes:
            out.append(L + pre * d + mid + post * d + ["ControlSemicolon"])
            # and the ill-formed variant: the innermost part missing
            out.append(L + pre * d + post * d + ["ControlSemicolon"])
    return out


OPENS = {"ControlParenLeft", "ControlBracketLeft", "ControlBraceLeft", "ControlChevronLeft", "Property", "KeywordRec"}


def oracle(chk, seqs, label, uncached_max_depth=3):
    """impl -> spec: run the real parser, have TLC judge short ones, check Linear on all.
    The uncached parser is exponential in nesting; it is run (separately) only on sequences
    with few openers, and a timeout there only means that the comparison was infeasible."""
    cases = [{"kinds": s, "entry": "program", "uncached": False} for s in seqs]
    obs = run_oalv_parallel("parse-kinds", cases, jobs=12)
    feasible = [i for i, s in enumerate(seqs) if sum(1 for t in s if t in OPENS) <= uncached_max_depth and len(s) <= 400]
    unc = {}
    if feasible:
        uo = run_oalv_parallel("parse-kinds-uncached", [{"kinds": seqs[i], "entry": "program"} for i in feasible], jobs=12, timeout_per_case=10.0)
        for i, o in zip(feasible, uo):
            unc[i] = o
    recs = []
    maxratio = 0.0
    infeasible = 0
    compared = 0
    for i, (s, o) in enumerate(zip(seqs, obs)):
        if o.get("outcome") == "skipped":
            continue
        if o.get("outcome") != "ok":
            chk.violation("C12|parser-%s" % o.get("outcome"), "the real parser %s on a %d-token sequence (%s)" % (o.get("outcome"), len(s), label),
                          {"kinds": s, "obs": o})
            continue
        n = len(s)
        ratio = o["cached"]["reads"] / float(n + 1)
        maxratio = max(maxratio, ratio)
        if o["cached"]["reads"] > LINEAR_K * (n + 1):
            chk.violation("C12|not-linear", "%d reads for %d tokens (%s)" % (o["cached"]["reads"], n, label), {"kinds": s, "reads": o["cached"]["reads"]})
            continue
        rc = real_outcome(o["cached"], n)
        u = unc.get(i)
        if u is not None:
            if u.get("outcome") != "ok":
                infeasible += 1
            else:
                compared += 1
                ru = real_outcome(u["uncached"], n)
                if ru != rc:
                    chk.violation("C12|memo-visible", "cached and uncached parse differ on a %d-token sequence (%s)" % (n, label),
                                  {"kinds": s, "cached": rc, "uncached": ru})
                    continue
        if n <= 60:
            recs.append({"toks": s, "c": rc, "reads": o["cached"]["reads"], "hits": o["cached"]["hits"],
                         "cache": o["cached"]["cache"], "arena": o["cached"]["arena"]})
    chk.cov["evaluations"] += len(seqs)
    chk.notes.setdefault("max_reads_per_token", {})[label] = round(maxratio, 2)
    chk.notes.setdefault("uncached_compared_in_real_code", {})[label] = {"compared": compared, "infeasible": infeasible}
    if recs:
        path = os.path.join(workdir(), "peg_oracle_%s.ndjson" % label)
        with open(path, "w") as f:
            for r in recs:
                f.write(json.dumps(r) + "\n")
        tr = run_tlc("PegMC", "Peg_oracle.cfg", workers=8, timeout=2400, env_extra={"PEG_CASES": path}, java_opts=JAVA, xmx="8g",
                     tags=("CASE", "DRIFT"))
        chk.add_tlc(tr)
        for dr in tr.lines.get("DRIFT", []):
            chk.drift("C12|oracle|%s" % label, "Peg.tla does not predict an observed run of the real parser (outcome or counters), e.g. %s" % " ".join(recs[dr["oi"] - 1]["toks"][:30]))
        if not tr.ok:
            v = tr.violation or ""
            if "ORACLE-Lossless" in v or "ORACLE-Linear" in v or "ORACLE-Progress" in v:
                chk.violation("C12|oracle|%s" % label, "an observed run of the real parser violates Lossless/Linear/Progress (TLC oracle mode, %s)" % label,
                              {"tlc": v[:3000]})
            else:
                chk.drift("C12|oracle|%s" % label, "Peg.tla does not predict an observed run of the real parser (outcome or counters)")
        else:
            chk.cov["traces_validated_against_impl"] += len(recs) - len(tr.lines.get("DRIFT", []))
            chk.sample({"oracle_family": label, "tokens": recs[len(recs) // 2]["toks"][:40], "reads": recs[len(recs) // 2]["reads"],
                        "hits": recs[len(recs) // 2]["hits"]})


def strip_prefix(toks):
    if toks[:3] == ["KeywordLet", "IdentifierValue", "OperatorEqual"]:
        return toks[3:]
    if toks[:1] == ["KeywordRes"]:
        return toks[1:]
    return toks


ENTRIES = ["expression", "term", "statement", "declaration", "content", "transfer"]


def other_entries(chk, rng, tails, limit):
    """memoisation must be invisible at every memoised production, not only below `program` (which discards the errors of
    its inner productions): the tails of the family members go through the other public entry points, with and without
    the memo table; result, end cursor, tree and error (message and position) must be equal"""
    tails = [list(t) for t in tails if t and sum(1 for k in t if k in OPENS) <= 3]
    if len(tails) > limit:
        tails = rng.sample(tails, limit)
    cases = [{"kinds": t, "entry": e, "uncached": True} for t in tails for e in ENTRIES]
    obs = run_oalv_parallel("parse-kinds", cases, jobs=12)
    same = errs = 0
    for c, o in zip(cases, obs):
        if o.get("outcome") == "skipped":
            continue
        if o.get("outcome") != "ok":
            chk.violation("C12|parser-%s" % o.get("outcome"), "the real parser %s at entry %s on %s" % (o.get("outcome"), c["entry"], " ".join(c["kinds"])), {"case": c})
            continue
        rc, ru = real_outcome(o["cached"], len(c["kinds"])), real_outcome(o["uncached"], len(c["kinds"]))
        if rc != ru:
            chk.violation("C12|memo-visible|entry-%s" % c["entry"], "cached and uncached parse differ at entry %s on: %s (cached %s, uncached %s)" % (
                c["entry"], " ".join(c["kinds"]), json.dumps(rc)[:160], json.dumps(ru)[:160]), {"kinds": c["kinds"], "entry": c["entry"], "cached": rc, "uncached": ru})
        else:
            same += 1
            errs += 0 if rc["ok"] else 1
    chk.cov["evaluations"] += len(cases)
    chk.cov["traces_validated_against_impl"] += same
    chk.notes["other_entries"] = {"tails": len(tails), "entries": ENTRIES, "compared_equal": same, "of_which_errors": errs}
    if same and errs < same // 20:
        raise common.ToolError("other entry points: almost no failing parses among the compared ones (%d of %d)" % (errs, same))


def run(tier):
    chk = Check("C12", tier)
    rng = random.Random(common.seed())
    common.build_harness()
    nontrivial = 0
    maxratio = 0.0
    tails = set()
    for fam in FAMILIES + ["triv"]:
        cfg = "Peg_%s_%s.cfg" % (fam, tier)
        r = run_tlc("PegMC", cfg, workers=8 if tier == "quick" else 16, timeout=7200, java_opts=JAVA, xmx="12g")
        chk.add_tlc(r)
        if not r.ok:
            chk.violation("C12|design|%s" % fam, "PegMC.tla: a property fails on the specification (%s)" % cfg, {"tlc": r.violation[:3000]})
            continue
        if fam == "triv":
            continue
        cases = r.cases
        obs = run_oalv_parallel("parse-kinds", [{"kinds": c["toks"], "entry": "program", "uncached": bool(c.get("unc"))} for c in cases], jobs=12)
        for c, o in zip(cases, obs):
            compare_member(chk, c, o, fam)
            tails.add(tuple(strip_prefix(c["toks"])))
            n = len(c["toks"])
            maxratio = max(maxratio, c["reads"] / float(n + 1))
            consumed = (c["c"]["rest"] - 1) if c["c"]["ok"] else 0
            if consumed >= 4 or c["hits"] >= 1:
                nontrivial += 1
        chk.cov["evaluations"] += len(cases)
        chk.cov["traces_validated_against_impl"] += len(cases)
        if cases:
            m = cases[len(cases) * 3 // 4]
            chk.sample({"family": fam, "tokens": m["toks"], "spec_reads": m["reads"], "spec_hits": m["hits"], "spec_cache": m["cache"],
                        "spec_uncached_reads": m.get("ureads")})
    other_entries(chk, rng, sorted(tails), 2500 if tier == "quick" else 40000)
    chk.cov["distinct_nontrivial"] = nontrivial
    chk.notes["max_reads_per_token_families"] = round(maxratio, 2)
    chk.notes["linear_K"] = LINEAR_K
    # (T) deep nests: the property's own example (8 nested parentheses) and far beyond
    oracle(chk, nests([1, 2, 4, 8]), "nests-small", uncached_max_depth=8)
    oracle(chk, nests([16, 50, 100, 200] if tier == "quick" else [16, 32, 50, 100, 150, 200]), "nests-deep", uncached_max_depth=0)
    oracle(chk, construct_nests([1, 2, 3]), "construct-nests-small", uncached_max_depth=3)
    oracle(chk, construct_nests([6, 12, 18] if tier == "quick" else [6, 9, 12, 15, 18, 30, 60]), "construct-nests-deep", uncached_max_depth=0)
    # (T) cross-construct combinations: every member of the PosShape / FnPos families (every consuming position x every
    # shape of value), and each with a postfix operator inserted after every syntax node (C04's insertion family)
    import c04
    ins_texts = c04.boundary_insertions(rng, 0 if tier == "quick" else 20000)
    ins_kinds = list({tuple(k) for k in lex_kinds(ins_texts) if k})
    ins_kinds.sort()
    if tier == "quick" and len(ins_kinds) > 2500:
        ins_kinds = rng.sample(ins_kinds, 2500)
    oracle(chk, [list(k) for k in ins_kinds], "family-members-with-postfix-operators", uncached_max_depth=4)
    # (T) sentences of the grammar enumerated by derivation depth (driver/sentences.py): every term form around every
    # small expression, with postfix operators, applications and binary operators around them
    import sentences
    sent = sentences.sentences()
    if tier == "quick":
        sent = rng.sample(sent, 9000)
    oracle(chk, sent, "grammar-sentences", uncached_max_depth=5)
    # (T) the production entry point (oal_syntax::parse) on nests, with and without a lexical error elsewhere in the text:
    # memoisation must be in effect whatever the lexer reported (time bound: a parse of these texts takes milliseconds)
    import c04
    prod = c04.all_nests([8, 12, 16] if tier == "quick" else [8, 10, 12, 14, 16, 24, 40])
    pobs = run_oalv_parallel("parse", [{"text": t} for t in prod], jobs=8)
    for t, o in zip(prod, pobs):
        if o.get("outcome") in ("hang", "abort"):
            chk.violation("C12|not-linear|production-entry", "oal_syntax::parse does not answer in time on a %d-character nest: %r" % (len(t), t[:80]), {"text": t})
        elif o.get("outcome") == "ok":
            chk.cov["traces_validated_against_impl"] += 1
    chk.cov["evaluations"] += len(prod)
    # (T) real programs and their token-level mutants
    texts = [t for _, t in corpus.texts()]
    kinds = [k for k in lex_kinds(texts) if k]
    seqs = list(kinds)
    nm = 300 if tier == "quick" else 6000
    for _ in range(nm):
        seqs.append(mutate(rng, rng.choice(kinds)))
    # statement-level slices keep sequences short enough for the TLC oracle
    short = []
    for k in kinds:
        cur = []
        for t in k:
            cur.append(t)
            if t == "ControlSemicolon":
                if 3 <= len(cur) <= 60:
                    short.append(cur)
                cur = []
    rng.shuffle(short)
    short = short[:200 if tier == "quick" else 1500]
    short += [mutate(rng, rng.choice(short)) for _ in range(200 if tier == "quick" else 3000)]
    oracle(chk, short, "statements")
    oracle(chk, seqs, "corpus-and-mutants", uncached_max_depth=3)
    # long concatenations (linear bound far from the small scope)
    longs = []
    for _ in range(5 if tier == "quick" else 40):
        big = []
        while len(big) < (2000 if tier == "quick" else 6000):
            big += rng.choice(kinds)
        longs.append(big)
    oracle(chk, longs, "long", uncached_max_depth=-1)
    # a long flat prefix followed by a nest, and the nest first: the work must not depend on how much was parsed before
    # (and how full the memo table is)
    flat = ["KeywordLet", "IdentifierValue", "OperatorEqual", "ControlBraceLeft", "Property", "PrimitiveInt", "ControlComma", "Property", "PrimitiveStr",
            "ControlBraceRight", "ControlSemicolon"]
    tails = nests([6, 10]) + construct_nests([6, 10])
    if tier == "quick":
        tails = rng.sample(tails, 24)
    longnest = []
    for reps in ([250, 1200] if tier == "quick" else [100, 250, 500, 1200, 3000]):
        for t in tails:
            longnest.append(flat * reps + t)
            longnest.append(t + flat * reps)
    oracle(chk, longnest, "long-prefix-then-nest", uncached_max_depth=-1)
    chk.cov["rule"] = ("families: fixed prefix (`let id =`, `res`, none) + every tail of <= k tokens over 7 sub-alphabets of the token kinds "
                       "(TLC Next appends one token); non-trivial = the parse consumes >= 4 tokens or hits the cache at least once; members are "
                       "distinct sequences. Beyond: nests to depth 200, the repository corpus, token-level mutants, concatenations of "
                       "thousands of tokens, long flat prefixes (up to 3000 statements) followed / preceded by every kind of nest, sentences of the grammar enumerated by derivation depth.")
    chk.cov["exhaustive"] = True
    chk.assumptions = [
        "the uncached parser is exponential in bracket nesting: cached/uncached equality is decided up to the configured nesting (2-3 open brackets in TLC, 3-8 in the real code), the linear bound everywhere",
        "linear bound: reads <= %d x (tokens + 1); the constant is about twice the largest ratio observed in the families" % LINEAR_K,
        "the transcription of parser.rs into OxlipGrammar.tla is validated by exact agreement of trees and of all four counters on every member",
    ]
    return chk.finish()


def replay(path):
    d = json.load(open(path))
    c = d["case"]
    common.build_harness()
    o = common.run_oalv("parse-kinds", [{"kinds": c["kinds"], "entry": c.get("entry", "program"), "uncached": len(c["kinds"]) < 40}])[0]
    print("tokens:", " ".join(c["kinds"]))
    print("specification:", json.dumps(c.get("spec"))[:1500])
    print("real:", json.dumps(o)[:1500])
    return 0
