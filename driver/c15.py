"""C15 — language-server answers depend only on current texts, not on edit history.

(S) TLC: Lsp.tla - every history of didOpen/didChange/didClose/refresh up to MaxEvents over a
    4-document workspace (main importing a and b, x outside the import graph) and abstract texts
    with syntax/compile/evaluation defects and import cycles: NoDrift, HistoryIndependent,
    StaleCleared.  The pinned design (reset only the keys of the document store) is kept as a
    second configuration in which TLC itself finds the stale-diagnostic interleaving.
(O) every abstract state at the bound comes with a history (REPLAY line); each history is
    replayed on the real oal-lsp with concrete sources, every didChange realised as random
    incremental UTF-16 edits, a request as barrier after every refresh; after every refresh the
    diagnostics the real server has published are compared with the specification's, and at the
    end with those of a FRESH real server that is handed the final texts (the property itself),
    together with answers to definition / references / prepareRename at sampled positions.
(T) thorough: long seeded random histories on the same workspace, same oracle (fresh server).
    Server-side text is compared exactly with the client's after every notification, in process
    (hook H4, `oalv lsptext`), on seeded edit scripts over multi-byte / CRLF texts.
"""
import concurrent.futures as cf
import json
import os
import random
import shutil

import common
import lsp
from common import Check, run_tlc, workdir

TEXT = {
    "mA": 'use "a.oal";\nres / on get -> <ta>;\n',
    "mAB": 'use "a.oal";\r\nuse "b.oal"; // é€\r\nres / on get -> <ta> :: <status=404, tb>;\r\n',
    "m0": 'res / on get -> <{}>;\n',
    "mSynA": 'use "a.oal";\nres / on get -> <ta>; /* \U0001F600 */\n)\n',
    "mEvalA": 'use "a.oal";\nres / on get -> <status=999, ta>;\n',
    "aOK": "let ta = { 'x num }; // é\n",
    "aSyn": "let ta = { 'x num };\n(\n",
    "aScope": "let ta = { 'x num };\nlet tz = nope; // \U0001F600\n",
    "aB": 'use "b.oal";\nlet ta = { \'x tb };\n',
    "aMain": 'use "main.oal";\nlet ta = { \'x num };\n',
    "bOK": "let tb = str;\n",
    "bSyn": "let tb = str;\r\n]\r\n",
    "xOK": "let tx = num;\n",
    "xSyn": "let tx = ;\n",
}
DISK = {"main": "mA", "a": "aOK", "b": "bOK", "x": "xOK"}
URIS = ["main", "a", "b", "x"]


def classify(msg):
    if msg.startswith("tokenization failed") or msg.startswith("syntax analysis failed") or msg.startswith("invalid syntax"):
        return "syntax"
    if msg.startswith("not in scope") or msg.startswith("invalid identifier"):
        return "scope"
    if msg.startswith("invalid literal") or msg.startswith("invalid YAML"):
        return "eval"
    if msg.startswith("cycle detected"):
        return "cycle"
    if msg.startswith("invalid module"):
        return "import"
    if msg.startswith("invalid type"):
        return "type"
    return "other:" + msg[:30]


def pos16(text, i):
    """LSP position of Python string index i"""
    line = text.count("\n", 0, i)
    ls = text.rfind("\n", 0, i) + 1
    col = sum(2 if ord(c) > 0xFFFF else 1 for c in text[ls:i])
    return {"line": line, "character": col}


def edits_for(rng, old, new):
    """a list of incremental content changes that turns old into new (client side)"""
    style = rng.choice(["full", "middle", "middle", "two-step", "to-eol"])
    if style == "full" or old == new:
        return [{"text": new}]
    p = 0
    while p < len(old) and p < len(new) and old[p] == new[p]:
        p += 1
    s = 0
    while s < len(old) - p and s < len(new) - p and old[len(old) - 1 - s] == new[len(new) - 1 - s]:
        s += 1
    # never split a CR LF pair (in the old, the new or any intermediate text): a lone CR is outside
    # the protocol domain of the property; shrink the common prefix/suffix to safe boundaries
    def unsafe_prefix(t, k):
        return 0 < k <= len(t) and t[k - 1] == "\r"
    while p > 0 and (unsafe_prefix(old, p) or unsafe_prefix(new, p)):
        p -= 1

    def unsafe_suffix(t, k):          # the suffix of length k starts with LF preceded by CR
        return 0 < k <= len(t) and t[len(t) - k] == "\n" and len(t) - k - 1 >= 0 and t[len(t) - k - 1] == "\r"
    while s > 0 and (unsafe_suffix(old, s) or unsafe_suffix(new, s)):
        s -= 1
    if p + s > len(old) or p + s > len(new):
        return [{"text": new}]
    a, b = p, len(old) - s
    mid = new[p:len(new) - s]
    if style == "two-step" and b > a:
        # insert the new middle, then delete the old one
        t1 = old[:a] + mid + old[a:]
        return [{"range": {"start": pos16(old, a), "end": pos16(old, a)}, "text": mid},
                {"range": {"start": pos16(t1, a + len(mid)), "end": pos16(t1, b + len(mid))}, "text": ""}]
    if style == "to-eol" and b == len(old):
        # a range whose end lies far beyond the end of the text (must be clamped)
        e = pos16(old, b)
        return [{"range": {"start": pos16(old, a), "end": {"line": e["line"] + 3, "character": 7}}, "text": mid}]
    return [{"range": {"start": pos16(old, a), "end": pos16(old, b)}, "text": mid}]


def apply_client(text, change):
    """client-side application of one content change (Python model of the protocol)"""
    if "range" not in change:
        return change["text"]

    def idx(p):
        lines = text.split("\n")
        if p["line"] >= len(lines):
            return len(text)
        start = sum(len(l) + 1 for l in lines[:p["line"]])
        line = lines[p["line"]]
        if line.endswith("\r"):
            line = line[:-1]
        col = 0
        i = 0
        while i < len(line) and col < p["character"]:
            col += 2 if ord(line[i]) > 0xFFFF else 1
            i += 1
        return start + i
    a, b = idx(change["range"]["start"]), idx(change["range"]["end"])
    return text[:a] + change["text"] + text[b:]


class Workspace:
    def __init__(self, tag):
        self.dir = os.path.join(workdir("lsp15"), tag)
        if os.path.isdir(self.dir):
            shutil.rmtree(self.dir)
        os.makedirs(self.dir)
        for u in URIS:
            with open(os.path.join(self.dir, u + ".oal"), "w", encoding="utf-8", newline="") as f:
                f.write(TEXT[DISK[u]])
        with open(os.path.join(self.dir, "oal.toml"), "w") as f:
            f.write('[api]\nmain = "main.oal"\ntarget = "out.yaml"\n')

    def uri(self, u):
        return lsp.uri_of(os.path.join(self.dir, u + ".oal"))

    def drop(self):
        shutil.rmtree(self.dir, ignore_errors=True)


def diag_classes(server, ws):
    out = {}
    for u in URIS:
        out[u] = sorted(set(classify(d["message"]) for d in server.diags.get(ws.uri(u), [])))
    return out


def queries(server, ws, texts, rng_seed):
    """answers to definition / references / prepareRename at sampled identifier positions"""
    rng = random.Random(rng_seed)
    out = []
    for u in URIS:
        t = texts[u]
        cands = [i for i in range(len(t)) if t[i].isalpha() and (i == 0 or not t[i - 1].isalnum())]
        rng.shuffle(cands)
        for i in cands[:4]:
            p = pos16(t, i)
            d = server.definition(ws.uri(u), p["line"], p["character"])
            r = server.references(ws.uri(u), p["line"], p["character"])
            pr = server.prepare_rename(ws.uri(u), p["line"], p["character"])
            norm = json.dumps([d, sorted(json.dumps(x, sort_keys=True) for x in (r or [])) if isinstance(r, list) else r, pr], sort_keys=True)
            out.append((u, p["line"], p["character"], norm.replace(ws.dir, "<ws>")))
    return out


def replay_history(tag, hist, seed, compare_spec=True):
    """runs one history on the real server; returns a dict with findings"""
    rng = random.Random(seed)
    ws = Workspace(tag)
    res = {"dead": None, "spec_mismatch": None, "stale": None, "answers": None, "events": len(hist)}
    s = lsp.Server(ws.dir)
    client = {u: None for u in URIS}
    scripts = []
    try:
        for k, ev in enumerate(hist):
            e, u = ev["e"], ev["u"]
            if e == "open":
                client[u] = TEXT[ev["t"]]
                s.open(ws.uri(u), client[u])
                scripts.append({"op": "open", "uri": ws.uri(u), "text": client[u]})
            elif e == "change":
                new = TEXT[ev["t"]]
                ch = edits_for(rng, client[u], new)
                cur = client[u]
                lone_cr = False
                for c in ch:
                    cur = apply_client(cur, c)
                    lone_cr = lone_cr or any(cur[k] == "\r" and cur[k + 1:k + 2] != "\n" for k in range(len(cur)))
                if cur != new or lone_cr:           # the edit script generator itself must stay inside the domain
                    ch = [{"text": new}]
                s.change(ws.uri(u), ch)
                scripts.append({"op": "change", "uri": ws.uri(u), "changes": [
                    {"range": [[c["range"]["start"]["line"], c["range"]["start"]["character"]],
                               [c["range"]["end"]["line"], c["range"]["end"]["character"]]] if "range" in c else None,
                     "text": c["text"]} for c in ch], "expect": new})
                client[u] = new
            elif e == "close":
                client[u] = None
                s.close(ws.uri(u))
                scripts.append({"op": "close", "uri": ws.uri(u)})
            elif e == "refresh":
                r = s.barrier(ws.uri("main"))
                if isinstance(r, dict) and ("__dead__" in r or "__timeout__" in r):
                    res["dead"] = {"at": k, "how": r}
                    break
                if compare_spec:
                    got = diag_classes(s, ws)
                    want = {u: sorted(ev["p"][u]) for u in URIS}
                    g2 = {u: [c for c in got[u] if c != "cycle"] for u in URIS}
                    w2 = {u: [c for c in want[u] if c != "cycle"] for u in URIS}
                    cyc_g = any("cycle" in got[u] for u in URIS)
                    cyc_w = any("cycle" in want[u] for u in URIS)
                    if (g2 != w2 or cyc_g != cyc_w) and res["spec_mismatch"] is None:
                        res["spec_mismatch"] = {"at": k, "real": got, "spec": want}
        if res["dead"] is None:
            r = s.barrier(ws.uri("main"))
            if isinstance(r, dict) and ("__dead__" in r or "__timeout__" in r):
                res["dead"] = {"at": len(hist), "how": r}
        if res["dead"] is None:
            # the property itself: a fresh server handed the final texts
            final = {u: (client[u] if client[u] is not None else TEXT[DISK[u]]) for u in URIS}
            hist_diags = diag_classes(s, ws)
            hist_answers = queries(s, ws, final, seed)
            f = lsp.Server(ws.dir)
            for u in URIS:
                if client[u] is not None:
                    f.open(ws.uri(u), client[u])
            f.barrier(ws.uri("main"))
            fresh_diags = diag_classes(f, ws)
            fresh_answers = queries(f, ws, final, seed)
            f.stop()
            if hist_diags != fresh_diags:
                res["stale"] = {"history_server": hist_diags, "fresh_server": fresh_diags,
                                "open": {u: client[u] is not None for u in URIS}}
            if hist_answers != fresh_answers:
                diff = [(a, b) for a, b in zip(hist_answers, fresh_answers) if a != b][:3]
                res["answers"] = {"differences": diff}
            res["alive"] = s.alive()
        res["scripts"] = scripts
    finally:
        s.stop()
        ws.drop()
    return res


def random_history(rng, n):
    allowed = {"main": ["mA", "mAB", "m0", "mSynA", "mEvalA"], "a": ["aOK", "aSyn", "aScope", "aB", "aMain"],
               "b": ["bOK", "bSyn"], "x": ["xOK", "xSyn"]}
    cur = {u: None for u in URIS}
    hist = []
    while len(hist) < n:
        u = rng.choice(URIS)
        r = rng.random()
        if cur[u] is None:
            t = rng.choice(allowed[u])
            hist.append({"e": "open", "u": u, "t": t})
            cur[u] = t
        elif r < 0.55:
            t = rng.choice([x for x in allowed[u] if x != cur[u]])
            hist.append({"e": "change", "u": u, "t": t})
            cur[u] = t
        elif r < 0.75:
            hist.append({"e": "close", "u": u, "t": ""})
            cur[u] = None
        else:
            hist.append({"e": "refresh", "u": "", "t": ""})
    return hist


def text_drift(chk, scripts_list):
    """server-side text after every notification == client-side text (in process, hook H4)"""
    cases = []
    expects = []
    for scripts in scripts_list:
        evs = []
        exp = []
        cur = {}
        for sc in scripts:
            if sc["op"] == "open":
                cur[sc["uri"]] = sc["text"]
                evs.append({"op": "open", "uri": sc["uri"], "text": sc["text"]})
            elif sc["op"] == "close":
                cur[sc["uri"]] = None
                evs.append({"op": "close", "uri": sc["uri"]})
            else:
                cur[sc["uri"]] = sc["expect"]
                evs.append({"op": "change", "uri": sc["uri"], "changes": sc["changes"]})
            exp.append(cur[sc["uri"]])
        if evs:
            cases.append({"events": evs})
            expects.append(exp)
    if not cases:
        return 0
    obs = common.run_oalv_parallel("lsptext", cases, jobs=8)
    n = 0
    for c, e, o in zip(cases, expects, obs):
        if o.get("outcome") == "skipped":
            continue
        if o.get("outcome") != "ok":
            chk.violation("C15|edit-%s" % o.get("outcome"), "applying an edit script %s in the server's workspace" % o.get("outcome"),
                          {"events": c["events"][:8], "obs": o})
            continue
        n += 1
        for k, (want, got) in enumerate(zip(e, o["texts"])):
            if want != got:
                chk.violation("C15|text-drift", "after notification %d the server's copy of the document differs from the client's" % k,
                              {"events": c["events"][:k + 1], "client": want, "server": got})
                break
    return n


def run(tier):
    chk = Check("C15", tier)
    rng = random.Random(common.seed())
    common.build_harness()
    common.build_bins()
    cfg = "Lsp_k5.cfg" if tier == "quick" else "Lsp_k7.cfg"
    r = run_tlc("Lsp", cfg, workers=8, timeout=1800, tags=("REPLAY",))
    chk.add_tlc(r)
    if not r.ok:
        chk.violation("C15|design", "Lsp.tla violates an invariant", {"tlc": r.violation})
    rp = run_tlc("Lsp", "Lsp_pinned.cfg", workers=4, timeout=600, tags=("REPLAY",))
    chk.add_tlc(rp)
    chk.notes["model_selftest"] = "Lsp_pinned.cfg (Publish resets only the keys of the document store): TLC %s" % (
        "finds a history with a stale diagnostic" if not rp.ok else "FAILED to find the stale-diagnostic history")
    if rp.ok:
        raise common.ToolError("self-test: TLC no longer finds the stale-diagnostic history in the pinned design")
    # every history of ANY length: without the history variables the state is finite; TLC closes the complete graph
    ru = run_tlc("Lsp", "Lsp_unbounded.cfg", workers=4, timeout=900, tags=("REPLAY",))
    chk.add_tlc(ru)
    if not ru.ok:
        chk.violation("C15|design", "Lsp.tla violates an invariant on the complete (unbounded-history) state graph", {"tlc": ru.violation})
    quiescent = sorted(ru.lines.get("REPLAY", []), key=lambda x: json.dumps(x, sort_keys=True))
    if ru.ok and (ru.distinct < 10000 or len(quiescent) < 300):
        raise common.ToolError("Lsp_unbounded.cfg: complete graph smaller than expected (%s distinct, %d quiescent)" % (ru.distinct, len(quiescent)))
    chk.notes["complete_graph"] = "Lsp_unbounded.cfg: %s distinct states, all histories of any length; %d quiescent states, one shortest history each, all replayed" % (
        ru.distinct, len(quiescent))
    replays = sorted(r.lines.get("REPLAY", []), key=lambda x: json.dumps(x, sort_keys=True))   # TLC's output order is not deterministic
    n_all = len(replays)
    nrep = 250 if tier == "quick" else 4000
    if len(replays) > nrep:
        replays = rng.sample(replays, nrep)
    replays = quiescent + replays
    chk.cov["exhaustive"] = False
    jobs = []
    for i, rep in enumerate(replays):
        jobs.append(("h%d" % i, rep["hist"], common.seed() * 1000003 + i, True))
    nlong = 12 if tier == "quick" else 200
    for i in range(nlong):
        jobs.append(("r%d" % i, random_history(rng, rng.randint(40, 120) if tier == "quick" else rng.randint(200, 800)), common.seed() * 7919 + i, False))
    with cf.ThreadPoolExecutor(max_workers=8) as ex:
        results = list(ex.map(lambda j: replay_history(*j), jobs))
    scripts_list = []
    nontrivial = 0
    for (tag, hist, _seed, cmp_spec), res in zip(jobs, results):
        short = [(e["e"], e["u"], e["t"]) for e in hist][:40]
        if res["dead"] is not None:
            chk.violation("C15|server-died", "the language server exits/hangs during the history %s" % short[:12], {"history": hist[:60], "how": res["dead"]})
            continue
        if res["stale"] is not None:
            st = res["stale"]
            kinds = sorted(set(c for u in URIS for c in st["history_server"][u] if c not in st["fresh_server"][u]))
            missing = sorted(set(c for u in URIS for c in st["fresh_server"][u] if c not in st["history_server"][u]))
            key = "C15|stale-diagnostics|" + ",".join(kinds) if kinds and not missing else "C15|diagnostics-differ-from-fresh-server"
            closed_only = all(not st["open"][u] for u in URIS if st["history_server"][u] != st["fresh_server"][u])
            if kinds and not missing and closed_only:
                key = "C15|stale-diagnostics-on-closed-document"
            chk.violation(key, "after the history %s the server shows %s, a fresh server with the same texts shows %s" % (
                short[:12], st["history_server"], st["fresh_server"]), {"history": hist[:80], "stale": st})
        elif res["answers"] is not None:
            chk.violation("C15|answers-differ-from-fresh-server", "definition/references/prepareRename answers differ from a fresh server's after %s" % short[:12],
                          {"history": hist[:80], "differences": res["answers"]})
        else:
            chk.cov["traces_validated_against_impl"] += 1
        if cmp_spec and res["spec_mismatch"] is not None:
            chk.drift("C15|analysis", "published diagnostics differ from Lsp.tla's abstract analysis, e.g. after %s: real %s, spec %s" % (
                short[:8], res["spec_mismatch"]["real"], res["spec_mismatch"]["spec"]))
        if sum(1 for e in hist if e["e"] == "change") >= 1 and sum(1 for e in hist if e["e"] == "refresh") >= 1:
            nontrivial += 1
        scripts_list.append(res.get("scripts") or [])
    nd = text_drift(chk, scripts_list)
    chk.cov["evaluations"] = len(jobs) + nd
    chk.cov["distinct_nontrivial"] = nontrivial
    chk.notes["abstract_states_at_bound"] = n_all
    chk.notes["histories_replayed"] = len(replays)
    chk.notes["long_random_histories"] = nlong
    chk.cov["rule"] = ("TLC enumerates every history up to the bound (VIEW hides the history variables); for each abstract state at the bound one history is "
                       "printed; a seeded sample of them plus long random histories are replayed on the real oal-lsp with concrete multi-byte/CRLF sources and "
                       "random incremental UTF-16 edits; non-trivial = at least one change and one refresh; histories are distinct event sequences")
    if replays:
        chk.sample({"history": [(e["e"], e["u"], e["t"]) for e in replays[0]["hist"]], "spec_published": replays[0]["published"]})
    chk.assumptions = [
        "notifications respect the protocol (change/close only on open documents, start <= end, positions on UTF-16 character boundaries or beyond the end); requests name existing documents",
        "files on disk do not change during a history",
        "never-published and published-empty diagnostics are identified",
        "the blamed module of an import cycle is not compared, only that a cycle is reported",
    ]
    return chk.finish()


def replay(path):
    d = json.load(open(path))
    c = d["case"]
    res = replay_history("replay", c["history"], 1, False)
    print("history:", [(e["e"], e["u"], e["t"]) for e in c["history"]])
    print("result:", json.dumps({k: v for k, v in res.items() if k != "scripts"})[:2000])
    return 1 if (res["stale"] or res["dead"] or res["answers"]) else 0
