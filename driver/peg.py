"""Shared helpers for the parser checks (C12, C11, C04): comparison of Peg.tla predictions
with the real parser run on token-kind sequences (oalv parse-kinds)."""
import json


def sexp(t):
    """nested JSON tree from the harness -> s-expression as Peg.tla prints it"""
    if isinstance(t, int):
        return str(t)
    if isinstance(t, dict):
        return "tok"
    return "(" + " ".join([t[0]] + [sexp(c) for c in t[1:]]) + ")"


def real_outcome(run, ntok):
    """run: 'cached' or 'uncached' object of parse-kinds"""
    if run.get("ok"):
        rest = run.get("rest")
        rest_cur = ntok + 1 if rest is None else rest[0] + 1
        return {"ok": True, "rest": rest_cur, "tree": sexp(run.get("tree")), "err": "", "at": 0}
    e = run["err"]
    # the harness reports the byte span; tokens have span i..i+1, end of input is n..n+1
    return {"ok": False, "rest": 0, "tree": "", "err": e[0], "at": e[1] + 1}


def compare_case(c, obs):
    """c: CASE record of PegMC; obs: parse-kinds output.  Returns list of (what, spec, real)."""
    diffs = []
    n = len(c["toks"])
    if obs.get("outcome") != "ok":
        return [("outcome", "ok", obs.get("outcome"))]
    rc = real_outcome(obs["cached"], n)
    if rc != c["c"]:
        diffs.append(("cached-outcome", c["c"], rc))
    for k, ok_ in (("reads", "reads"), ("hits", "hits"), ("cache", "cache"), ("arena", "arena")):
        if obs["cached"][ok_] != c[k]:
            diffs.append(("cached-" + k, c[k], obs["cached"][ok_]))
    if "uncached" in obs:
        ru = real_outcome(obs["uncached"], n)
        if ru != c["u"]:
            diffs.append(("uncached-outcome", c["u"], ru))
        if obs["uncached"]["reads"] != c["ureads"]:
            diffs.append(("uncached-reads", c["ureads"], obs["uncached"]["reads"]))
        if obs["uncached"]["arena"] != c["uarena"]:
            diffs.append(("uncached-arena", c["uarena"], obs["uncached"]["arena"]))
        if ru != rc:
            diffs.append(("memo-transparent", rc, ru))
    return diffs
