"""C04 — any text is answered with a result or diagnostics, never a crash.

(S) TLC: the loops that could diverge terminate in the models (Unify: Acyclic/NoDivergence/
    Terminates; Peg: Progress; Loader: Terminates - checked by C07, C12, C10 on the same specs),
    and Frontends.tla has no crash/hang outcome (exit in {0,1}, playground answers, server alive).
(T) every text of the input families is pushed through the real front ends - tokenizer+parser and
    the full compile pipeline in process, the playground entry point oal_wasm::compile, and
    (for a sample) the real oal-cli and oal-lsp binaries; an outcome that is neither a result nor
    diagnostics (panic, abort, stack overflow, hang, server exit) is a violation; the recorded
    outcomes are validated by TLC against FrontendsTotal (FrontendsTrace.tla).
Inputs: rendered token sequences of the parser families with extreme lexemes, token- and
character-level mutants of the repository corpus, arbitrary Unicode strings, nests to depth 200.
"""
import json
import os
import random
import re

import common
import corpus
import frontends
import lexemes
from c11 import mutate_text, random_text
from common import Check, run_tlc, run_oalv_parallel, workdir

SIG = {}      # text -> violation key found in process (the binaries crash for the same reason)
PANIC_AT = re.compile(r"panicked at ([^\s:]+):(\d+):\d+:\s*\n?([^\n]*)")


def sig_of_panic(msg, at):
    f = os.path.basename((at or "?").split(":")[0])
    m = re.sub(r"[0-9a-f]{16,}", "#", (msg or ""))
    m = re.split(r"[:(\[{]", m)[0].strip()[:50]
    return "%s|%s" % (f, m)


def sig_of_stderr(err):
    m = PANIC_AT.search(err or "")
    if m:
        return sig_of_panic(m.group(3), m.group(1))
    if "overflowed its stack" in (err or ""):
        return "stack-overflow"
    return "unknown"


OPENERS = ["(", "[", "{ 'p ", "<", "rec x ", "'p ", "< status = ", "f ( ", "/ { 'v "]
CLOSERS = {"(": ")", "[": "]", "{ 'p ": " }", "<": ">", "rec x ": "", "'p ": "", "< status = ": " >", "f ( ": " )", "/ { 'v ": " }"}


def nests(rng, depth):
    o = rng.choice(OPENERS)
    inner = rng.choice(["num", "{}", "x", "1", ""])
    return "let a = " + o * depth + inner + CLOSERS[o] * depth + ";\n"


def all_nests(depths):
    """every opener x every innermost part (well-formed ones and the ill-formed ones: innermost part missing, a stray token,
    the closers missing) at every depth: the error, if any, sits at the bottom of the nest"""
    out = []
    for d in depths:
        for o in OPENERS:
            for inner in ["num", "", ")", "x"]:
                out.append("let a = " + o * d + inner + CLOSERS[o] * d + ";\nres / on get -> <a>;\n")
            out.append("let a = " + o * d + "num" + ";\n")                    # closers missing
            # a well-formed nest in a text that has a lexical error elsewhere
            out.append("let z = \u00a7 str;\nlet a = " + o * d + "num" + CLOSERS[o] * d + ";\nres / on get -> <a>;\n")
    return out


WRAP = ["'p %s", "[%s]", "{ 'p %s }", "{ %s }", "<%s>", "%s ?", "%s !", "%s & {}", "%s | num", "%s ~ num", "%s :: <>", "rec x %s",
        "f %s", "(%s)", "/ { %s }", "/a ? %s", "%s on get -> <>", "get -> %s", "get : %s -> <>", "<status=%s, {}>", "<media=%s, {}>",
        "<headers=%s, {}>", "%s", "f %s %s", "concat %s /x", "%s.x",
        "/x on get -> %s", "/x on put : %s -> <>", "/x on get -> %s :: <>", "/x on get -> <> :: %s", "rec x (/x on get -> x :: %s)", "/x ? { 'q %s }",
        "get { 'q %s } -> <>", "(%s) on get -> %s"]


def rec_shapes():
    """self-referential and mutually referential declarations through every expression form"""
    out = []
    pre = "let f x = x;\n"
    for w in WRAP:
        out.append(pre + "let a = %s;\nres / on get -> <a>;\n" % (w.replace("%s", "a")))
        out.append(pre + "let a = %s;\n" % (w.replace("%s", "a")))
        out.append("let g y = %s;\nlet a = g num;\n" % (w.replace("%s", "g")))
    for w in WRAP:
        for v in WRAP[:12]:
            out.append(pre + "let a = %s;\nlet b = %s;\nres / on get -> <a>;\n" % (w.replace("%s", "b"), v.replace("%s", "a")))
    return out


INSERTED = ["?", "!", "(", ")", ",", "::", "&", "|", "~", "->", ":", "on", "rec r", "'p", ";", "=", "<", ">", "{", "}", "[", "]", "/", ".", "@", "x", "1", "\"s\""]


def boundary_insertions(rng, count):
    """well-formed programs of the specification's families and of the generator, with one token inserted at the start or
    the end of a syntax node (the source map gives the boundaries): almost-valid programs, which reach the later phases"""
    import gen
    import render
    ps = gen.programs(common.seed() * 1000 + 4, max(40, count // 120), p_bad=0.0, max_depth=2)
    # members of the PosShape / FnPos families (every consuming position x every shape of value, accepted or not)
    rf = run_tlc("EvalAbsMC", "EvalAbs_quick.cfg", workers=8, timeout=1800, java_opts=["-Xss512m"])
    fam = [c["prog"] for c in rf.cases if c["ind"] in ("direct", "fnlocal")]
    out = []
    must = []
    for k, p in enumerate(fam + ps):
        if len(p["mods"]) > 1:
            continue
        rp = render.render_program(p)
        m = p["main"]
        text = rp["files"][rp["main"]]
        raw = text.encode("utf-8")
        ends = sorted(set(ent["span"][1] for ent in rp["maps"][m].values() if "span" in ent))
        offs = sorted(set(o for ent in rp["maps"][m].values() if "span" in ent for o in ent["span"]))
        if k < len(fam):
            # the postfix operators after every node of every family member: exhaustive, not sampled
            for off in ends:
                for tok in ("?", "!"):
                    must.append((raw[:off] + b" " + tok.encode() + raw[off:]).decode("utf-8"))
        for off in offs:
            for tok in rng.sample(INSERTED[2:], 2):
                out.append((raw[:off] + b" " + tok.encode() + b" " + raw[off:]).decode("utf-8"))
    must = list(dict.fromkeys(must))
    rng.shuffle(out)
    return must + list(dict.fromkeys(out))[:count]


def in_process(chk, texts, label):
    pr = run_oalv_parallel("parse", [{"text": t} for t in texts], jobs=12)
    cr = run_oalv_parallel("compile", [{"main": "file:///w/main.oal", "files": {"file:///w/main.oal": t}, "want": {}} for t in texts], jobs=12)
    wr = run_oalv_parallel("wasm", [{"text": t} for t in texts], jobs=12)
    n_ok = 0
    for t, p, c, w in zip(texts, pr, cr, wr):
        for fe, o in (("parse", p), ("compile", c), ("wasm", w)):
            oc = o.get("outcome")
            if oc == "ok":
                # panics caught inside the pipeline phases
                for ph in ("load", "eval", "emit"):
                    if isinstance(o.get(ph), dict) and o[ph].get("result") == "panic":
                        pj = o[ph]["panic"]
                        if ph == "load":
                            key = "C04|panic|%s" % sig_of_panic(pj["msg"], pj["at"])
                        else:
                            # an accepted program crashing the back end (the subject of C01) is also a crash of the front end
                            import progs
                            key = "C04|eval-crash|%s|%s" % progs.crash_signature(pj["msg"])
                        SIG[t] = key
                        chk.violation(key, "panic in %s of %r: %s at %s" % (ph, t[:60], pj["msg"][:100], pj["at"]),
                                      {"text": t, "front_end": fe, "phase": ph, "panic": pj})
                continue
            if oc == "skipped":
                continue
            if oc == "panic":
                import progs
                site, var = progs.crash_signature(o.get("msg") or "")
                key = ("C04|eval-crash|%s|%s" % (site, var)) if site != "panic" else "C04|panic|%s" % sig_of_panic(o.get("msg"), o.get("at"))
                SIG.setdefault(t, key)
                chk.violation(key,
                              "%s panics on %r: %s at %s" % (fe, t[:60], (o.get("msg") or "")[:100], o.get("at")),
                              {"text": t, "front_end": fe, "panic": o})
            elif oc == "abort":
                chk.violation("C04|abort|%s" % fe, "%s aborts the process (signal %s) on %r" % (fe, o.get("signal"), t[:60]),
                              {"text": t, "front_end": fe, "obs": o})
            elif oc == "hang":
                chk.violation("C04|hang|%s" % fe, "%s does not terminate on %r" % (fe, t[:60]), {"text": t, "front_end": fe})
        if p.get("outcome") == "ok":
            n_ok += 1
    chk.cov["evaluations"] += len(texts)
    chk.notes.setdefault("in_process", {})[label] = len(texts)
    return pr


def binaries(chk, texts, label):
    srcs = [{"files": {"main.oal": t}, "main": "main.oal", "predicted": ""} for t in texts]
    obs = frontends.run_all(srcs, cli_configs=((None, False, True),), jobs=8)
    events = []
    for s, o in zip(srcs, obs):
        t = s["files"]["main.oal"]
        for fe, what in frontends.crashes(o):
            if fe == "cli":
                sig = sig_of_stderr(o["cli"][0]["stderr"])
            elif fe == "wasm":
                sig = sig_of_panic(o["wasm"].get("msg"), o["wasm"].get("at"))
            else:
                sig = "lsp-exit"
            key = SIG.get(t) or "C04|%s-crash|%s" % (fe, sig)
            chk.violation(key, "%s: %s on %r" % (fe, what[:160], t[:60]), {"text": t, "front_end": fe, "obs": what})
        ev = [{"e": "src", "predicted": ""}]
        c = o["cli"][0]
        ev.append({"e": "cli", "exit": c["exit"] if c["exit"] is not None else -1, "hang": bool(c["timed_out"])})
        if o["wasm"] is not None:
            ev.append({"e": "wasm", "answered": o["wasm"].get("outcome") == "ok"})
        ev.append({"e": "lsp", "alive": not (o["lsp"]["dead"] or o["lsp"]["hung"])})
        events.append(ev)
    chk.cov["evaluations"] += len(texts)
    chk.notes.setdefault("through_binaries", {})[label] = len(texts)
    # TLC: the recorded outcomes are outcomes the specification has
    path = os.path.join(workdir(), "total_%s.ndjson" % label)
    with open(path, "w") as f:
        for ev in events:
            for e in ev:
                f.write(json.dumps(e) + "\n")
    r = run_tlc("FrontendsTrace", "FrontendsTotal.cfg", workers=1, timeout=900, env_extra={"TRACE": path}, tags=("REJECTED",),
                java_opts=["-Xss512m", "-Dtlc2.tool.queue.IStateQueue=StateDeque"])
    chk.add_tlc(r)
    if r.ok:
        chk.cov["traces_validated_against_impl"] += len(events)
    else:
        rej = r.lines.get("REJECTED", [{}])[0]
        # every crash has already been reported above with its own signature; make sure one was
        if not chk.violations and not chk.known_hit:
            chk.violation("C04|trace-rejected", "an observed front-end outcome is not an outcome of Frontends.tla: %s" % json.dumps(rej), {"rejected": rej})
    return obs


def run(tier):
    chk = Check("C04", tier)
    rng = random.Random(common.seed())
    common.build_harness()
    common.build_bins()
    r = run_tlc("Frontends", "Frontends.cfg", workers=4, timeout=600)
    chk.add_tlc(r)
    if not r.ok:
        chk.violation("C04|design", "Frontends.tla violates an invariant", {"tlc": r.violation})
    base = [t for _, t in corpus.texts()]
    small = [t for t in base if len(t) < 500]
    q = tier == "quick"
    fam = lexemes.family_texts(rng, 1200 if q else 40000)
    muts = list(dict.fromkeys(mutate_text(rng, rng.choice(small)) for _ in range(800 if q else 30000)))
    rnd = list(dict.fromkeys(random_text(rng) for _ in range(800 if q else 30000)))
    deep = [nests(rng, d) for d in ([1, 5, 20, 50, 100, 150, 200] if q else list(range(1, 201, 7))) for _ in range(2 if q else 4)]
    deep += all_nests([3, 6, 9, 12, 40] if q else [2, 3, 4, 5, 6, 7, 8, 9, 10, 12, 16, 24, 40, 80, 160])
    extreme = ["let a = 12345678901234567890123;", "let a = 18446744073709551616;", "let a = 18446744073709551615;", "let a = \"\";",
               "'", "@", "let @ = 1;", "let a = ' ;", "#", "`", "``", "/*", "/**/", "//", "\"", "let a = 999XX;", "let a = 6XX;", "res /%;",
               "﻿", "\u0000", "let a = <status=0, {}>;", "res / on get -> <status=18446744073709551615, {}>;", "use \"\";", "use \"::\";",
               "use \"http://x/y.oal\";", "let a = `:`;", "# [\nlet a = num;", "let a = num `{`;", "let a = num `a: &x [*x]`;"]
    in_process(chk, fam, "rendered-token-sequences")
    in_process(chk, muts, "corpus-mutants")
    in_process(chk, rnd, "unicode")
    in_process(chk, deep, "nests")
    in_process(chk, base + extreme, "corpus-and-extreme-lexemes")
    shapes = rec_shapes()
    in_process(chk, shapes, "recursive-declaration-shapes")
    ins = boundary_insertions(rng, 3000 if q else 60000)
    in_process(chk, ins, "token-inserted-at-node-boundaries")
    nb = 60 if q else 1500
    sample = extreme + rng.sample(shapes, min(len(shapes), nb)) + rng.sample(fam, min(len(fam), nb)) + rng.sample(muts, min(len(muts), nb)) + rng.sample(rnd, min(len(rnd), nb // 2)) + deep[:len(deep) if not q else 8]
    binaries(chk, sample, "sample")
    chk.cov["distinct_nontrivial"] = len(set(fam)) + len(set(muts)) + len(set(rnd)) + len(set(deep)) + len(ins)
    chk.cov["rule"] = ("inputs: rendered token sequences of the parser families (extreme lexemes: u64 limits and beyond, empty strings, names at their "
                       "lexical limits), character/token-level mutants of the repository corpus, arbitrary strings over an alphabet with 2-4 byte "
                       "characters, CR LF, NUL, BOM, nests to depth 200, self- and mutually-referential declarations through every expression form, well-formed generated programs with one token of a 28-token set inserted at a syntax-node boundary; each goes through tokenizer+parser, the full pipeline and oal_wasm::compile "
                       "in process, a sample through the real oal-cli and oal-lsp; all inputs are de-duplicated and all are counted non-trivial "
                       "(each is a distinct text)")
    for lbl, s in (("family", fam), ("mutant", muts), ("unicode", rnd)):
        if s:
            chk.sample({"source": lbl, "text": s[len(s) // 2][:100]})
    chk.assumptions = [
        "bracket nesting depth <= 200 (deeper input overflows the 8 MiB main-thread stack of the binaries; outside the property's domain)",
        "a hang is a run of more than 20 s (in process) / 60 s (binaries) on inputs that normally take milliseconds",
        "termination of the unifier, the parser engine and the loader on all inputs of their families is model-checked in Unify.tla, Peg.tla, Loader.tla (C07, C12, C10)",
    ]
    return chk.finish()


def replay(path):
    d = json.load(open(path))
    c = d["case"]
    t = c["text"]
    common.build_harness()
    print("text:", repr(t[:300]))
    for sub, case in (("parse", {"text": t}), ("wasm", {"text": t}),
                      ("compile", {"main": "file:///w/main.oal", "files": {"file:///w/main.oal": t}, "want": {}})):
        o = common.run_oalv(sub, [case])[0]
        print(sub, "->", json.dumps(o)[:300])
    return 0
