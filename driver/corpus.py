"""Oxlip sources found in the repository: examples/*.oal and every raw string literal of the
repository's own test files (extracted textually)."""
import glob
import os
import re

REPO = "/repo"


def texts():
    out = []
    seen = set()
    for f in sorted(glob.glob(os.path.join(REPO, "examples", "*.oal"))):
        t = open(f).read()
        if t not in seen:
            seen.add(t)
            out.append(("examples/" + os.path.basename(f), t))
    pats = [os.path.join(REPO, "oal-*", "src", "*.rs"), os.path.join(REPO, "oal-*", "src", "*", "*.rs")]
    for pat in pats:
        for f in sorted(glob.glob(pat)):
            src = open(f).read()
            for k, m in enumerate(re.finditer(r'r#"(.*?)"#', src, re.S)):
                t = m.group(1)
                if t not in seen and ("let" in t or "res" in t or "use" in t):
                    seen.add(t)
                    out.append(("%s#%d" % (os.path.relpath(f, REPO), k), t))
            # one-line programs passed as ordinary string literals
            for k, m in enumerate(re.finditer(r'"((?:let|res|use) [^"\\]*;)"', src)):
                t = m.group(1)
                if t not in seen:
                    seen.add(t)
                    out.append(("%s@%d" % (os.path.relpath(f, REPO), k), t))
    return out


if __name__ == "__main__":
    ts = texts()
    print(len(ts))
    for n, t in ts[:5]:
        print(n, repr(t[:80]))
