"""Helpers over abstract programs (JSON shape of Ast.tla): rendering for the harness, permutation of
declarations, consistent renaming, classification of real outcomes."""
import copy
import itertools
import re

import render

B = "file:///w/"


def harness_case(prog, style=0, want=None, **kw):
    rp = render.render_program(prog, style=style)
    c = {"main": rp["main"], "files": rp["files"], "want": want or {}}
    c.update(kw)
    return c, rp


def real_outcome(o):
    """classification of `oalv compile` output"""
    oc = o.get("outcome")
    if oc != "ok":
        return {"k": "ABORT" if oc == "abort" else oc.upper(), "detail": o}
    ld = o["load"]
    if ld["result"] == "panic":
        return {"k": "CRASH", "phase": "load", "msg": ld["panic"]["msg"], "at": ld["panic"]["at"]}
    if ld["result"] != "ok":
        e = ld["error"]
        return {"k": "REJECTED", "cls": e.get("kind") or e.get("class"), "msg": e.get("msg")}
    ev = o.get("eval", {})
    if ev.get("result") == "panic":
        return {"k": "CRASH", "phase": "eval", "msg": ev["panic"]["msg"], "at": ev["panic"]["at"]}
    if ev.get("result") == "err":
        return {"k": "ERROR", "cls": ev.get("kind"), "located": ev.get("span") is not None}
    em = o.get("emit", {})
    if em.get("result") == "panic":
        return {"k": "CRASH", "phase": "emit", "msg": em["panic"]["msg"], "at": em["panic"]["at"]}
    if em.get("result") not in ("ok", None):
        return {"k": "EMITERR", "detail": em}
    return {"k": "OK"}


CAST = {"not a schema": "cast_schema", "not a content": "cast_content", "not ranges": "cast_ranges", "not a string": "cast_string",
        "not a property": "cast_property", "not an HTTP status": "cast_status", "not an object": "cast_object",
        "not a transfer": "cast_transfer", "not a relation": "cast_relation", "not a uri": "cast_uri", "not a lambda": "cast_lambda"}


def crash_signature(msg):
    """(site, variant) from a panic message of eval.rs, e.g. 'not an object: VariadicOp(VariadicOp { op: Join' -> ('cast_object', 'VariadicOp(Join)')"""
    for pre, site in CAST.items():
        if msg.startswith(pre):
            rest = msg[len(pre):].lstrip(": ")
            m = re.match(r"([A-Za-z]+)", rest)
            var = m.group(1) if m else "?"
            if var == "VariadicOp":
                mo = re.search(r"op: (\w+)", rest)
                var = "VariadicOp(%s)" % (mo.group(1) if mo else "?")
            if var.startswith("Prim"):
                var = "Prim"
            return site, var
    m = re.match(r"binding '([^']*)' should exist", msg)
    if m:
        return "lookup_binding", "missing"
    return "panic", re.sub(r"[^A-Za-z ]", "", msg)[:30].strip()


OPNAME = {"&": "Join", "~": "Any", "|": "Sum", "::": "Range"}


def spec_crash_signature(site, variant):
    v = variant[0]
    if v == "VariadicOp":
        v = "VariadicOp(%s)" % OPNAME.get(variant[1], variant[1])
    return site, v


def permutations_of(prog, limit=6, rng=None):
    """programs with the statements of every module permuted (main module: all permutations up to `limit`)"""
    main = prog["main"]
    stmts = prog["mods"][main]
    perms = list(itertools.permutations(range(len(stmts))))
    if len(perms) > limit:
        perms = [perms[0]] + (rng.sample(perms[1:], limit - 1) if rng else perms[1:limit])
    out = []
    for pm in perms[1:]:
        q = copy.deepcopy(prog)
        q["mods"][main] = [stmts[i] for i in pm]
        for m in q["mods"]:
            if m != main:
                q["mods"][m] = list(reversed(q["mods"][m]))
        out.append(q)
    return out


def rename_consistently(prog, suffix="_r9", refs=False):
    """every declared name, parameter, rec binder and qualifier gets a new spelling (built-ins keep theirs)"""
    declared = set()

    def collect(n):
        if n["k"] in ("decl", "bind", "rec"):
            declared.add(n["s"])
        if n["k"] == "use" and n["q"]:
            declared.add("q:" + n["q"])
        for c in n["a"]:
            collect(c)
    for m in prog["mods"].values():
        for st in m:
            collect(st)

    def nn(x):
        # @reference names are visible in the document (component names): not renamed
        return x + suffix if x in declared and (refs or not x.startswith("@")) else x

    def go(n):
        n = dict(n)
        if n["k"] in ("decl", "bind", "rec"):
            n["s"] = nn(n["s"])
        elif n["k"] == "var":
            n["s"] = nn(n["s"])
            if n["q"] and ("q:" + n["q"]) in declared:
                n["q"] = n["q"] + suffix
        elif n["k"] == "use" and n["q"]:
            n["q"] = n["q"] + suffix
        n["a"] = [go(c) for c in n["a"]]
        return n
    return {"main": prog["main"], "mods": {m: [go(st) for st in stmts] for m, stmts in prog["mods"].items()}}
