#!/bin/sh
# usage: seed_confirm.sh <worktree> <demo command>   — confirms a seeded change in its scratch worktree:
#   (1) with the patch: the 90 repository tests pass; the demo fails
#   (2) without the patch: the demo passes
set -u
W="$1"; shift
cd "$W" || exit 2
echo "== with patch: repository tests"
cargo test --workspace --no-fail-fast --offline 2>&1 | grep -E "^test result" | awk '{p+=$4; f+=$6} END {print p" passed "f" failed"}'
echo "== with patch: demo"
sh -c "$*" > /tmp/seed_demo_with.log 2>&1; echo "demo exit with patch: $?"; tail -3 /tmp/seed_demo_with.log
git apply -R SEED/patch.diff || exit 2
echo "== without patch: demo"
sh -c "$*" > /tmp/seed_demo_without.log 2>&1; echo "demo exit without patch: $?"; tail -3 /tmp/seed_demo_without.log
git apply SEED/patch.diff
