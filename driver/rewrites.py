"""Meaning-preserving rewrites on the abstract syntax (C05)."""
import copy


def N(k, s="", q="", n=0, a=()):
    return {"k": k, "s": s, "q": q, "n": n, "a": list(a)}


def expr_paths(stmts):
    """paths (1-based) of expression nodes with the set of names bound by enclosing parameters / rec binders"""
    out = []

    def go(n, path, bound, ctx):
        if n["k"] not in ("decl", "res", "use", "bind", "meta", "seg", "uvar"):
            out.append((path, n, frozenset(bound), ctx))
        if n["k"] == "decl":
            go(n["a"][n["n"]], path + [n["n"] + 1], bound | {b["s"] for b in n["a"][:n["n"]]}, "rhs")
            return
        for i, c in enumerate(n["a"]):
            b2 = bound | ({n["s"]} if n["k"] == "rec" else set())
            # contexts where the grammar wants a literal object (no application / variable / parentheses change of kind)
            if n["k"] == "xfer" and (n["n"] & 1) and i == 0:
                cx = "literal-object"
            elif n["k"] == "uri" and n["n"] == 1 and i == len(n["a"]) - 1:
                cx = "literal-object"
            elif n["k"] == "app" and i == 0:
                cx = "function-name"
            else:
                cx = "expr"
            go(c, path + [i + 1], b2, cx)
    for i, st in enumerate(stmts):
        go(st, [i + 1], set(), "stmt")
    return out


def free_names(n, bound=frozenset()):
    out = set()

    def go(x, b):
        if x["k"] == "var" and not x["q"] and x["s"] not in b:
            out.add(x["s"])
        if x["k"] == "rec":
            for c in x["a"]:
                go(c, b | {x["s"]})
            return
        for c in x["a"]:
            go(c, b)
    go(n, set(bound))
    return out


def has_qualified(n):
    return (n["k"] == "var" and bool(n["q"])) or any(has_qualified(c) for c in n["a"])


def reaches(stmts, start, target):
    """does some name of `start` depend (transitively, through the declarations of the module) on the declaration `target`?"""
    deps = {st["s"]: free_names(st["a"][st["n"]], {b["s"] for b in st["a"][:st["n"]]}) for st in stmts if st["k"] == "decl"}
    seen = set()
    todo = list(start)
    while todo:
        x = todo.pop()
        if x == target:
            return True
        if x in seen:
            continue
        seen.add(x)
        todo.extend(deps.get(x, ()))
    return False


def enclosing_decl(stmts, path):
    st = stmts[path[0] - 1]
    return st["s"] if st["k"] == "decl" else None


def replace_at(stmts, path, new):
    stmts = copy.deepcopy(stmts)
    node = stmts[path[0] - 1]
    if len(path) == 1:
        stmts[path[0] - 1] = new
        return stmts
    for i in path[1:-1]:
        node = node["a"][i - 1]
    node["a"][path[-1] - 1] = new
    return stmts


def name_with_let(prog, path, node, bound, fresh="zz_named"):
    """names a closed sub-expression with a let (declared after its use: order is free)"""
    if free_names(node) & bound or node["k"] in ("prop",) and False:
        return None
    m = prog["main"]
    d = enclosing_decl(prog["mods"][m], path)
    if d is not None and reaches(prog["mods"][m], free_names(node), d):
        return None          # naming a part of a recursive definition moves the recursion point (another, equivalent, set of components)
    stmts = replace_at(prog["mods"][m], path, N("var", fresh))
    stmts.append(N("decl", fresh, a=[copy.deepcopy(node)]))
    q = copy.deepcopy(prog)
    q["mods"][m] = stmts
    return q


def wrap_in_function(prog, path, node, fresh="zz_wrap"):
    """e  ->  zz_wrap e   with   let zz_wrap x = x;   (arguments are evaluated in the caller's scope)"""
    m = prog["main"]
    stmts = replace_at(prog["mods"][m], path, N("app", a=[N("var", fresh), copy.deepcopy(node)]))
    stmts.insert(0, N("decl", fresh, n=1, a=[N("bind", "zz_x"), N("var", "zz_x")]))
    q = copy.deepcopy(prog)
    q["mods"][m] = stmts
    return q


def move_to_module(prog, fresh="zz_moved"):
    """moves a dependency-closed group of declarations of the main module (those without free names) into an imported module"""
    m = prog["main"]
    stmts = prog["mods"][m]
    declared = {st["s"] for st in stmts if st["k"] == "decl"}
    movable = [i for i, st in enumerate(stmts) if st["k"] == "decl" and st["q"] != "@" and not has_qualified(st)
               and not (free_names(st["a"][st["n"]], {b["s"] for b in st["a"][:st["n"]]}) - {"concat"})]
    if not movable:
        return None
    q = copy.deepcopy(prog)
    q["mods"][fresh] = [stmts[i] for i in movable]
    q["mods"][m] = [N("use", fresh)] + [st for i, st in enumerate(stmts) if i not in movable]
    return q


def inline_let(prog):
    """replaces the uses of a parameterless, non-reference, non-recursive declaration by its right-hand side"""
    m = prog["main"]
    stmts = prog["mods"][m]
    for i, st in enumerate(stmts):
        if st["k"] == "decl" and st["n"] == 0 and st["q"] != "@" and not st["s"].startswith("@") and not st.get("ann"):
            rhs = st["a"][0]
            name = st["s"]
            if name in free_names(rhs) or free_names(rhs) - {s2["s"] for s2 in stmts if s2["k"] == "decl"} - {"concat"}:
                continue
            if reaches(stmts, free_names(rhs), name):
                continue          # on a cycle through other declarations: inlining would move the recursion point
            used = [False]
            blocked = [False]

            def sub(n, bound):
                if n["k"] == "var" and not n["q"] and n["s"] == name and name not in bound:
                    if n.get("ann"):
                        blocked[0] = True        # a use-site annotation would need nested terminals: not inlined
                    used[0] = True
                    return copy.deepcopy(rhs)
                n = dict(n)
                if n["k"] == "decl":
                    b2 = bound | {b["s"] for b in n["a"][:n["n"]]}
                    n["a"] = n["a"][:n["n"]] + [sub(n["a"][n["n"]], b2)]
                    return n
                b2 = bound | ({n["s"]} if n["k"] == "rec" else set())
                n["a"] = [sub(c, b2) for c in n["a"]]
                return n
            new = [sub(s2, set()) for j, s2 in enumerate(stmts) if j != i]
            # the declaration may be recursive through others: only inline when nothing refers back
            if used[0] and not blocked[0] and name not in set().union(*[free_names(s2["a"][s2["n"]]) for s2 in new if s2["k"] == "decl"] or [set()]):
                q = copy.deepcopy(prog)
                q["mods"][m] = new
                return q
    return None


def has_annotations(prog):
    def go(n):
        return bool(n.get("ann")) or any(go(c) for c in n["a"])
    return any(go(st) for stmts in prog["mods"].values() for st in stmts)


def abstract_subterm(prog, path, node, bound, rng, fresh="zz_abs"):
    """E[S]  ->  zz_abs S   with   let zz_abs zz_p = E[zz_p];   for a closed expression E and a closed proper
    sub-expression S of it (beta-expansion: the sub-expression becomes the argument of a single-use function whose
    body is the rest).  None when no such S exists.  rng = None: every choice of S (a list)."""
    if free_names(node) & bound:
        return None
    d0 = enclosing_decl(prog["mods"][prog["main"]], path)
    if d0 is not None and reaches(prog["mods"][prog["main"]], free_names(node), d0):
        return None          # as for name_with_let: parts of a recursive definition are left alone
    inner = [(p, n, b, cx) for p, n, b, cx in expr_paths([node]) if len(p) > 1 and cx == "expr" and not (free_names(n) & b)
             and n["k"] not in ("bind",)]
    # expr_paths treats `node` as statement 1: sub-paths start with [1, ...]
    if not inner:
        return None
    chosen = inner if rng is None else [inner[rng.randrange(len(inner))]]
    out = []
    for p, s, b, cx in chosen:
        body = replace_at([node], p, N("var", "zz_p"))[0]
        m = prog["main"]
        stmts = replace_at(prog["mods"][m], path, N("app", a=[N("var", fresh), copy.deepcopy(s)]))
        stmts.insert(0, N("decl", fresh, n=1, a=[N("bind", "zz_p"), body]))
        q = copy.deepcopy(prog)
        q["mods"][m] = stmts
        out.append(q)
    return out if rng is None else out[0]


def alpha_rename_each(prog, fresh_suffix="_ar"):
    """one program per binder (function parameter or rec binder) of the main module: that binder and the uses it binds are
    renamed to a fresh name (alpha-conversion of a single binder; every other spelling stays, so coincidences of names
    between callers and callees, or between nested binders, are broken one at a time)"""
    m = prog["main"]
    out = []

    def rename_in(n, old, new):
        """rename the free occurrences of `old` in n"""
        n = dict(n)
        if n["k"] == "var" and not n["q"] and n["s"] == old:
            n["s"] = new
            return n
        if n["k"] == "rec" and n["s"] == old:
            return n                      # shadowed inside
        n["a"] = [rename_in(c, old, new) for c in n["a"]]
        return n

    def recs(n, path):
        if n["k"] == "rec":
            yield path, n
        if n["k"] == "decl":
            yield from recs(n["a"][n["n"]], path + [n["n"] + 1])
            return
        for i, c in enumerate(n["a"]):
            yield from recs(c, path + [i + 1])
    stmts = prog["mods"][m]
    for si, st in enumerate(stmts):
        if st["k"] == "decl":
            for j in range(st["n"]):
                old = st["a"][j]["s"]
                new = old + fresh_suffix
                st2 = copy.deepcopy(st)
                st2["a"][j]["s"] = new
                # a later parameter of the same name would shadow: not generated by the families
                st2["a"][st["n"]] = rename_in(st2["a"][st["n"]], old, new)
                q = copy.deepcopy(prog)
                q["mods"][m][si] = st2
                out.append(q)
        for path, r in recs(st, [si + 1]):
            old = r["s"]
            new = old + fresh_suffix
            r2 = dict(copy.deepcopy(r))
            r2["s"] = new
            r2["a"] = [rename_in(c, old, new) for c in r2["a"]]
            q = copy.deepcopy(prog)
            q["mods"][m] = replace_at(q["mods"][m], path, r2)
            out.append(q)
    return out


def rename_decl_to_imported_name(prog):
    """a local declaration is renamed to a name that an unqualified import also exports (and that the module does not
    otherwise use): the local declaration shadows the import, so nothing changes.  None when there is no such pair."""
    m = prog["main"]
    stmts = prog["mods"][m]
    exported = []
    for st in stmts:
        if st["k"] == "use" and not st["q"] and st["s"] in prog["mods"]:
            exported += [d["s"] for d in prog["mods"][st["s"]] if d["k"] == "decl" and not d["s"].startswith("@")]
    if not exported:
        return None
    local = [st["s"] for st in stmts if st["k"] == "decl"]
    used = set()
    for st in stmts:
        if st["k"] == "decl":
            used |= free_names(st["a"][st["n"]], {b["s"] for b in st["a"][:st["n"]]})
            used |= {b["s"] for b in st["a"][:st["n"]]}
        elif st["k"] == "res":
            used |= free_names(st["a"][0])
    binders = set()

    def collect(n):
        if n["k"] == "rec":
            binders.add(n["s"])
        for c in n["a"]:
            collect(c)
    for st in stmts:
        collect(st)
    targets = [e for e in exported if e not in local and e not in used and e not in binders]
    sources = [d for d in local if not d.startswith("@")]
    if not targets or not sources:
        return None
    old, new = sources[0], targets[0]

    def ren(n, bound):
        n = dict(n)
        if n["k"] == "var" and not n["q"] and n["s"] == old and old not in bound:
            n["s"] = new
            return n
        if n["k"] == "decl":
            b2 = bound | {b["s"] for b in n["a"][:n["n"]]}
            n["a"] = n["a"][:n["n"]] + [ren(n["a"][n["n"]], b2)]
            if n["s"] == old:
                n["s"] = new
            return n
        b2 = bound | ({n["s"]} if n["k"] == "rec" else set())
        n["a"] = [ren(c, b2) for c in n["a"]]
        return n
    q = copy.deepcopy(prog)
    q["mods"][m] = [ren(st, set()) for st in stmts]
    return q
