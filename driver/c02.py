"""C02 — the emitted document means what the program says (faithful translation).

(S) Den.tla is an independent reference semantics: identifiers resolved by the binding relation
    and looked up in a lexical environment of thunks (call by name), recursion given by unfolding
    to a structural depth K, explicit references kept as named references; it maps a program to an
    abstract document (path items with parameters, operations per method, request body, responses
    per (status, media type) with schema and headers, explicit components).  TLC evaluates it on
    every member of the families Ranges, Uris, Xfers, Schemas, RecInst, RecGraphs, PosShape, FnPos
    (DenMC.tla) that Kinds.tla accepts.
(O) every accepted member is compiled by the real pipeline; the emitted document, abstracted into
    the same shape (implicit hash-named components unfolded to the same depth, object properties
    as sets), must equal the denotation: nothing declared is dropped, duplicated or attached
    elsewhere.  Differences are classified by what is missing or different.
"""
import json
import random

import absdoc
import common
import progs
import render
from common import Check, run_tlc, run_oalv_parallel

K = 4
FAMILIES = {"quick": ["ranges", "uris", "xfers", "schemas", "recinst", "dynscope", "annots", "recgraphs2", "fnpos"],
            "thorough": ["ranges", "uris", "xfers", "schemas", "recinst", "dynscope", "annots", "recgraphs2", "fnpos", "posshape"]}


def compare_members(chk, fam, members, cases, obs, alt=None):
    """members: CASE records of DenMC (defined ones); cases/obs: the harness cases and observations of the same programs"""
    total = compared = same = 0
    for c, hc, o in zip(members, cases, obs):
        if o.get("outcome") == "skipped":
            continue
        real = progs.real_outcome(o)
        total += 1
        if real["k"] != "OK":
            continue                     # rejected / crashing members are C07's and C01's subject
        compared += 1
        diffs = absdoc.compare_docs(absdoc.expected_doc(c), absdoc.abstract_doc(o["doc"], K))
        text = hc["files"][hc["main"]]
        if not diffs:
            same += 1
            chk.cov["traces_validated_against_impl"] += 1
            continue
        kinds = sorted(set(k for k, _ in diffs))
        key = "C02|" + "+".join(kinds[:3])
        a = (alt or {}).get(json.dumps(c["prog"], sort_keys=True))
        if a is not None and all(k.startswith("annotation-differs") for k in kinds) and not absdoc.compare_docs(absdoc.expected_doc(a), absdoc.abstract_doc(o["doc"], K)):
            # the document is exactly what Den.tla denotes when annotations reaching a parameter's use win over those written
            # on the argument (ParamPrecedence = "use", the pinned behaviour of eval_binding): the known precedence inconsistency
            chk.violation("C02|annotation-precedence-through-parameter", "%s: %s; program %r" % (fam, diffs[0][1][:300], text[:200]),
                          {"files": hc["files"], "family": fam, "differences": diffs[:6]})
            continue
        if "two-resources-one-path" in kinds:
            key = "C02|two-resources-one-path"
        elif c.get("label") and len(c["label"]) == 4:
            # the Annots family: how the annotated value is supplied and where it is annotated again
            key += "|via=%s|use=%s" % (c["label"][2], c["label"][3])
        chk.violation(key, "%s: %s; program %r" % (fam, diffs[0][1][:300], text[:200]), {"files": hc["files"], "family": fam, "differences": diffs[:6]})
    return total, compared, same


def run(tier):
    chk = Check("C02", tier)
    rng = random.Random(common.seed())
    common.build_harness()
    total = 0
    compared = 0
    for fam in FAMILIES[tier]:
        r = run_tlc("DenMC", "Den_%s.cfg" % fam, workers=8, timeout=3000, java_opts=["-Xss512m"], xmx="12g")
        chk.add_tlc(r)
        if not r.ok:
            raise common.ToolError("DenMC failed on %s: %s" % (fam, (r.violation or "")[:600]))
        members = [c for c in r.cases if c["defined"]]
        cases = []
        rps = []
        for i, c in enumerate(members):
            rp = render.render_program(c["prog"], style=(i + common.seed()) % 4)
            rps.append(rp)
            cases.append({"main": rp["main"], "files": rp["files"], "want": {"doc": True}})
        # renderer cross-check: the text parses back to the abstract program
        back = run_oalv_parallel("tree2ast", [{"text": rp["files"][rp["main"]]} for rp in rps], jobs=8)
        for c, rp, b in zip(members, rps, back):
            if b.get("outcome") != "ok" or b.get("ast") is None:
                continue
            def strip(n):
                return {"k": n["k"], "s": n["s"], "q": n["q"], "n": n["n"], "a": [strip(x) for x in n["a"]]}
            got = [strip(dict(st, s=st["s"][:-4]) if st["k"] == "use" and st["s"].endswith(".oal") else st) for st in b["ast"]]
            if got != [strip(st) for st in c["prog"]["mods"][c["prog"]["main"]]]:
                raise common.ToolError("renderer cross-check failed (tree2ast(render(p)) != p) on %r" % rp["files"][rp["main"]][:200])
        obs = run_oalv_parallel("compile", cases, jobs=8)
        alt = None
        if fam == "annots":
            rpin = run_tlc("DenMC", "Den_annots_pinned.cfg", workers=8, timeout=3000, java_opts=["-Xss512m"], xmx="12g")
            chk.add_tlc(rpin)
            alt = {json.dumps(c["prog"], sort_keys=True): c for c in rpin.cases if c["defined"]}
        t, c_, same = compare_members(chk, fam, members, cases, obs, alt)
        total += t
        compared += c_
        chk.notes.setdefault("members", {})[fam] = {"accepted_by_the_model": len(members), "documents_equal": same}
        if members:
            k = len(members) // 2
            chk.sample({"family": fam, "program": cases[k]["files"][cases[k]["main"]], "denotation_paths": members[k]["paths"]})
    # random composite programs (gen.py): Den.tla in oracle mode, one initial state per program
    import gen
    import oracle
    n = 300 if tier == "quick" else 4000
    # half of them carry random annotations on literal constructs and declaration lines (Den.tla gives them a place)
    ps = gen.programs(common.seed() * 1000 + 2, n // 2, p_bad=0.0) + gen.programs(common.seed() * 1000 + 12, n - n // 2, p_bad=0.0, p_ann=0.25)
    rps = [render.render_program(p, style=i % 4) for i, p in enumerate(ps)]
    oracle.crosscheck(ps, rps)
    cases = [{"main": rp["main"], "files": rp["files"], "want": {"doc": True}} for rp in rps]
    obs = run_oalv_parallel("compile", cases, jobs=8)
    okidx = [i for i, o in enumerate(obs) if o.get("outcome") == "ok" and progs.real_outcome(o)["k"] == "OK"]
    dens, rs = oracle.den([ps[i] for i in okidx], chunk=200, timeout=3000)
    for r in rs:
        chk.add_tlc(r)
    keep = [(d, cases[i], obs[i]) for i, d in zip(okidx, dens) if d is not None and d["defined"]]
    undefined = sum(1 for d in dens if d is None or not d["defined"])
    if undefined:
        chk.drift("C02|composites|model-rejects-accepted", "Kinds.tla rejects %d random composite programs the real compiler accepts" % undefined)
    t, c_, same = compare_members(chk, "composites", [k[0] for k in keep], [k[1] for k in keep], [k[2] for k in keep])
    total += t
    compared += c_
    chk.notes.setdefault("members", {})["composites"] = {"generated": n, "accepted_and_evaluated": len(okidx), "documents_equal": same}
    chk.cov["evaluations"] = total
    chk.cov["distinct_nontrivial"] = compared
    chk.cov["exhaustive"] = True
    chk.cov["rule"] = ("families of DenMC.tla: Ranges (pairs/triples of contents over 4 statuses x 3 media types, through let and a function), Uris (8 templates, concat of "
                       "every pair, through let), Xfers (8 transfer lists, through let on two resources), Schemas (all forms to depth 2, marks in three places, through "
                       "@let), RecInst, RecGraphs(2), FnPos, PosShape (thorough); plus seeded random composite programs (driver/gen.py: several declarations of all sorts, functions, an imported module, recursion) "
                       "judged by Den.tla in oracle mode (300 quick / 4000 thorough generated, half of them with random annotations on literal constructs and declaration lines; the accepted and evaluated ones are compared); non-trivial = accepted and evaluated by the real compiler, so that a document was compared")
    chk.assumptions = [
        "annotations are not part of this fragment of the reference semantics (their placement is covered only through determinism/agreement checks)",
        "recursive schemas are compared as trees unfolded to structural depth %d on both sides; object properties are compared as sets" % K,
        "headers belong to a response status: every header declared by a content of that status must be in the document; contents of one status that disagree on the schema of one header are not compared on that header",
        "of two contents of one transfer with the same (status, media type) as written the later stands (Den.tla LastWins); methods of the transfers of one relation are disjoint",
        "the renderer is cross-checked on every member (tree2ast(render(p)) = p)",
    ]
    return chk.finish()


def replay(path):
    d = json.load(open(path))
    c = d["case"]
    common.build_harness()
    main = [k for k in c["files"] if k.endswith("m1.oal")][0]
    o = common.run_oalv("compile", [{"main": main, "files": c["files"], "want": {"yaml": True}}])[0]
    for k, v in c["files"].items():
        print(k)
        print(v)
    print("differences recorded:", json.dumps(c.get("differences"))[:1500])
    print(o.get("yaml", "")[:3000])
    return 0
