/* LD_PRELOAD shim for C06: shifts the wall clock seen by a process by OALV_TIME_OFFSET seconds
 * (clock_gettime(CLOCK_REALTIME), gettimeofday, time), leaving monotonic clocks alone. */
#define _GNU_SOURCE
#include <dlfcn.h>
#include <stdlib.h>
#include <time.h>
#include <sys/time.h>

static long long offset(void) {
    const char *s = getenv("OALV_TIME_OFFSET");
    return s ? atoll(s) : 0;
}

int clock_gettime(clockid_t id, struct timespec *ts) {
    static int (*real)(clockid_t, struct timespec *) = 0;
    if (!real) real = (int (*)(clockid_t, struct timespec *))dlsym(RTLD_NEXT, "clock_gettime");
    int r = real(id, ts);
    if (r == 0 && (id == CLOCK_REALTIME || id == CLOCK_REALTIME_COARSE)) ts->tv_sec += offset();
    return r;
}

int gettimeofday(struct timeval *tv, void *tz) {
    static int (*real)(struct timeval *, void *) = 0;
    if (!real) real = (int (*)(struct timeval *, void *))dlsym(RTLD_NEXT, "gettimeofday");
    int r = real(tv, tz);
    if (r == 0 && tv) tv->tv_sec += offset();
    return r;
}

time_t time(time_t *t) {
    static time_t (*real)(time_t *) = 0;
    if (!real) real = (time_t (*)(time_t *))dlsym(RTLD_NEXT, "time");
    time_t v = real(0) + offset();
    if (t) *t = v;
    return v;
}
