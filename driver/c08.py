"""C08 — identifiers bind lexically and evaluation honours the same binding.

(S) TLC: Resolve.tla - the steps of resolve() (standard library, imports, declarations, pre-order
    traversal with Open/Define/Close on the scope stack) agree with the declarative binding
    relation RefTable (innermost enclosing rec binder, parameter, declaration regardless of order,
    import by qualifier, built-in) on every member of the Scopes family: one contested name that
    may be bound at the same time by every kind of binder x every use site.  A second
    configuration keeps the pinned single root scope, in which TLC itself finds the
    declaration-versus-import collision.
(O) every member is rendered (four trivia styles, multi-byte comments, CRLF) and resolved by the
    real resolve() (hook H2): the error class, or the complete binding table - every Variable
    node's definition mapped back through the source map - must equal the specification's.
    For members the real compiler accepts, the evaluated document must carry the marker of the
    value bound at the binder the specification chose (evaluation honours the binding).
"""
import json
import random

import common
import render
from common import Check, run_tlc, run_oalv_parallel

BASE = "file:///w/"
MARKERS = {"d", "u", "q", "p", "t", "z"}         # z: a decoy module nobody imports


def group_cases(cases):
    progs = {}
    for c in cases:
        k = json.dumps(c["prog"], sort_keys=True)
        g = progs.setdefault(k, {"prog": c["prog"], "mods": {}})
        g["mods"][c["mod"]] = {"err": c["err"], "table": c["table"]}
    return list(progs.values())


def pkey(p):
    return ".".join(str(i) for i in p)


def var_paths(stmts):
    """paths of all variable nodes of a module (1-based, as in the specification)"""
    out = []

    def go(n, path):
        if n["k"] == "var":
            out.append(path)
        if n["k"] == "decl":
            go(n["a"][n["n"]], path + [n["n"] + 1])
            return
        for i, c in enumerate(n["a"]):
            go(c, path + [i + 1])
    for i, st in enumerate(stmts):
        go(st, [i + 1])
    return out


def expected_def_span(binder, maps, urls=None):
    if binder["kind"] == "internal":
        return "internal"
    mp = maps[binder["m"]]
    ent = mp[pkey(binder["p"])]
    url = urls[binder["m"]] if urls else BASE + binder["m"] + ".oal"
    if binder["kind"] == "rec":
        return [url] + ent["name"]
    return [url] + ent["span"]


def markers_of(doc):
    """marker property names reachable from the response schema of GET /, and whether it is self-referential"""
    try:
        sch = doc["paths"]["/"]["get"]["responses"]["default"]["content"]["application/json"]["schema"]
    except (KeyError, TypeError):
        return None, False
    comps = (doc.get("components") or {}).get("schemas") or {}
    seen = set()
    found = set()
    selfref = [False]

    def go(s, stack):
        if not isinstance(s, dict):
            return
        if "$ref" in s:
            name = s["$ref"].rsplit("/", 1)[-1]
            if name in stack:
                selfref[0] = True
                return
            if name in seen:
                return
            seen.add(name)
            go(comps.get(name), stack + [name])
            return
        for k, v in (s.get("properties") or {}).items():
            if k in MARKERS:
                found.add(k)
            go(v, stack)
        if "items" in s:
            go(s["items"], stack)
        for key in ("oneOf", "anyOf", "allOf"):
            for x in s.get(key) or []:
                go(x, stack)
    go(sch, [])
    return found, selfref[0]


def expected_marker(binder):
    if binder["kind"] == "decl":
        return {"m1": "d", "g": "u", "h": "q", "k": "k"}.get(binder["m"])
    if binder["kind"] == "param":
        return "p"
    if binder["kind"] == "rec":
        return "self"
    return None


def contested_use(prog, table):
    """the table row of the use of the contested name (the variable that is not u, f, t, nor a use of the parameter in 'v')"""
    main = prog["mods"]["m1"]
    rows = []
    for r in table:
        n = main[r["use"][0] - 1]
        node = n
        for i in r["use"][1:]:
            node = node["a"][i - 1]
        if node["s"] in ("n", "concat"):
            rows.append((r, node))
    # the recfn site also uses the parameter P in 'v'; when P = n both rows denote the contested name:
    # take the one under the property 'k' (the first in pre-order)
    rows.sort(key=lambda x: x[0]["use"])
    return rows[0] if rows else (None, None)


def has_prop_t(stmts):
    def go(n):
        return (n["k"] == "prop" and n["s"] == "t") or any(go(c) for c in n["a"])
    return any(go(st) for st in stmts)


def run(tier):
    chk = Check("C08", tier)
    rng = random.Random(common.seed())
    common.build_harness()
    cfg = "Resolve_thorough.cfg"      # the whole Scopes family in both tiers (5 s); the quick family lacks the built-in name
    r = run_tlc("ResolveMC", cfg, workers=8, timeout=1800)
    chk.add_tlc(r)
    if not r.ok:
        chk.violation("C08|design", "Resolve.tla: the steps of resolve() disagree with the declarative binding relation", {"tlc": r.violation})
    rp = run_tlc("ResolveMC", "Resolve_pinned.cfg", workers=4, timeout=600)
    chk.add_tlc(rp)
    chk.notes["model_selftest"] = "Resolve_pinned.cfg (built-ins, imports and declarations in one root scope): TLC %s" % (
        "finds the declaration/import collision" if not rp.ok else "FAILED to find the collision")
    if rp.ok:
        raise common.ToolError("self-test: TLC no longer finds the collision in the single-root-scope design")
    import absdoc
    import c02
    import oracle
    progs = group_cases(r.cases)
    nontrivial = 0
    dyn = 0
    accepted_progs = []
    # the family is compiled twice: all modules side by side, and the imported modules in a sub-directory (an import is
    # written relative to the importing module; beside the main module sit decoys under the names of the moved modules,
    # which no module imports)
    passes = []
    LIB = {"g": "lib/g", "h": "lib/h", "k": "lib/k"}
    for layout, loaded in ((None, False), (LIB, False), (LIB, True)):
        rendered = []
        cases = []
        for i, g in enumerate(progs):
            rp_ = render.render_program(g["prog"], style=(i + common.seed()) % 4, layout=layout)
            if layout:
                for k_, m in enumerate(sorted(layout)):
                    if m in g["prog"]["mods"]:
                        rp_["files"][BASE + m + ".oal"] = "let n = { 'z num };\nlet u = { 'z num };\nlet f x = { 'z x };\n"
                        if loaded:
                            # the decoy is a module of the program (imported by the main module under a qualifier nobody
                            # uses, after everything else so that no statement moves): still not what lib/g's import names
                            rp_["files"][rp_["main"]] += 'use "%s.oal" as zz%d;\n' % (m, k_)
            rendered.append(rp_)
            cases.append({"main": rp_["main"], "files": rp_["files"], "resolve_only": True, "want": {"bindings": True, "decls": True}})
        obs = run_oalv_parallel("compile", cases, jobs=8)
        full = run_oalv_parallel("compile", [{"main": c["main"], "files": c["files"], "want": {"doc": True}} for c in cases], jobs=8)
        passes.append((layout, rendered, obs, full))
    chk.notes["layouts"] = ["all modules in one directory", "imported modules in lib/ with decoys of the same names beside the main module",
                            "the same with the decoys imported by the main module under unused qualifiers"]
    for g, rp_, o, f, layout in [(g, rp_, o, f, layout) for layout, rendered_, obs_, full_ in passes for g, rp_, o, f in zip(progs, rendered_, obs_, full_)]:
        prog = g["prog"]
        text = rp_["files"][BASE + "m1.oal"]
        payload = {"prog_text": rp_["files"], "spec": {m: {"err": g["mods"][m]["err"]} for m in g["mods"]}}
        if o.get("outcome") == "skipped":
            continue
        if o.get("outcome") != "ok" or o["load"].get("result") == "panic":
            chk.violation("C08|resolve-crash", "resolve crashes on %r" % text[:100], dict(payload, obs=o))
            continue
        spec_errs = [g["mods"][m]["err"] for m in ("k", "g", "h", "m1") if m in g["mods"] and g["mods"][m]["err"]]
        if o["load"]["result"] == "err":
            e = o["load"]["error"]
            kind = e.get("kind", e.get("class"))
            if not spec_errs:
                chk.violation("C08|error|real=%s spec=ok" % kind, "the real resolver rejects (%s) a program whose uses all have binders: %r" % (kind, text[:160]),
                              dict(payload, real=e))
            elif kind != spec_errs[0]:
                chk.violation("C08|error|real=%s spec=%s" % (kind, spec_errs[0]), "error class differs on %r" % text[:160], dict(payload, real=e))
            else:
                chk.cov["traces_validated_against_impl"] += 1
            continue
        if spec_errs:
            chk.violation("C08|error|real=ok spec=%s" % spec_errs[0], "the real resolver accepts a program the binding relation rejects (%s): %r" % (spec_errs[0], text[:160]), payload)
            continue
        # binding tables, module by module
        bad = False
        for m in prog["mods"]:
            if rp_["urls"][m] not in o["modules"]:
                continue                 # not imported: never loaded
            real = {tuple(b["use"][1:]): b for b in o["modules"][rp_["urls"][m]]["bindings"]}
            mp = rp_["maps"][m]
            table = {pkey(row["use"]): row["b"] for row in g["mods"][m]["table"]}
            for p in var_paths(prog["mods"][m]):
                ent = mp[pkey(p)]
                rb = real.get((ent["span"][0], ent["span"][1]))
                want = expected_def_span(table[pkey(p)], rp_["maps"], rp_["urls"])
                if rb is None or rb["def"] is None:
                    got = None
                elif "int" in rb["def"]:
                    got = "internal"
                else:
                    got = rb["def"]["span"]
                if got != want:
                    bad = True
                    wk = table[pkey(p)]["kind"] + "@" + table[pkey(p)]["m"]
                    gk = "none" if got is None else ("internal" if got == "internal" else rb["def"]["ext"] + "@" + got[0][len(BASE):-4])
                    chk.violation("C08|binding|real=%s spec=%s" % (gk, wk),
                                  "use at %s of module %s is bound to %s, the binding relation says %s, in %r" % (p, m, got, want, rp_["files"][rp_["urls"][m]][:160]),
                                  dict(payload, module=m, use=p, real=got, spec=want))
        if not bad:
            chk.cov["traces_validated_against_impl"] += 1
        nontrivial += 1
        # evaluation honours the binding (marker properties; the sites with a use after a rec are judged by the denotation below)
        if layout is None:
            accepted_progs.append((prog, rp_, f))
        if has_prop_t(prog["mods"]["m1"]):
            continue
        row, node = contested_use(prog, g["mods"]["m1"]["table"])
        if row is None or f.get("outcome") != "ok" or f.get("load", {}).get("result") != "ok" or f.get("eval", {}).get("result") != "ok" \
                or f.get("emit", {}).get("result") != "ok":
            continue
        want = expected_marker(row["b"])
        found, selfref = markers_of(f["doc"])
        if found is None or want is None:
            continue
        dyn += 1
        found = found - {"t"}
        if want == "self":
            ok = selfref
        else:
            ok = want in found and not (found - {want} - ({"p"} if any(st["k"] == "decl" and st["n"] for st in prog["mods"]["m1"]) else set()))
        if not ok:
            chk.violation("C08|evaluation|expected=%s found=%s" % (want, ",".join(sorted(found)) + ("+self" if selfref else "")),
                          "the evaluated document carries %s (self-reference: %s) but the use is bound to the %s binder: %r" % (
                              sorted(found), selfref, want, text[:200]), dict(payload, doc=f["doc"]))
    # random composite programs with shadowing among binders (a rec binder or a parameter takes the name of another binder
    # in scope): ResolveMC.tla in oracle mode gives the binding tables, the real resolver must produce the same
    import gen
    cps = gen.programs(common.seed() * 1000 + 8, 60 if tier == "quick" else 500, p_bad=0.0, shadow=0.4)
    ccases, crs = oracle.resolve(cps)
    for r2 in crs:
        chk.add_tlc(r2)
        if not r2.ok:
            chk.violation("C08|design|composites", "Resolve.tla: the steps of resolve() disagree with the declarative binding relation on a composite program", {"tlc": r2.violation})
    cgroups = group_cases(ccases)
    crend = [render.render_program(g["prog"], style=(i + common.seed()) % 4) for i, g in enumerate(cgroups)]
    cobs = run_oalv_parallel("compile", [{"main": r_["main"], "files": r_["files"], "resolve_only": True, "want": {"bindings": True, "decls": True}} for r_ in crend], jobs=8)
    cfull = run_oalv_parallel("compile", [{"main": r_["main"], "files": r_["files"], "want": {"doc": True}} for r_ in crend], jobs=8)
    comp_ok = 0
    comp_acc = []
    for g, rp_, o, f in zip(cgroups, crend, cobs, cfull):
        prog = g["prog"]
        if o.get("outcome") != "ok" or o["load"].get("result") == "panic":
            chk.violation("C08|resolve-crash", "resolve crashes on a composite program", {"prog_text": rp_["files"], "obs": o})
            continue
        spec_errs = [g["mods"][m]["err"] for m in g["mods"] if g["mods"][m]["err"]]
        if o["load"]["result"] == "err" or spec_errs:
            kind = (o["load"].get("error") or {}).get("kind")
            if bool(spec_errs) != (o["load"]["result"] == "err") or (spec_errs and kind not in spec_errs):
                chk.violation("C08|error|composite|real=%s spec=%s" % (kind or "ok", spec_errs[0] if spec_errs else "ok"), "error class differs on a composite program", {"prog_text": rp_["files"]})
            continue
        bad = False
        for m in prog["mods"]:
            if BASE + m + ".oal" not in o["modules"]:
                continue
            real = {tuple(b["use"][1:]): b for b in o["modules"][BASE + m + ".oal"]["bindings"]}
            mp = rp_["maps"][m]
            table = {pkey(row["use"]): row["b"] for row in g["mods"][m]["table"]}
            for p in var_paths(prog["mods"][m]):
                ent = mp[pkey(p)]
                rb = real.get((ent["span"][0], ent["span"][1]))
                want = expected_def_span(table[pkey(p)], rp_["maps"])
                got = None if rb is None or rb["def"] is None else ("internal" if "int" in rb["def"] else rb["def"]["span"])
                if got != want:
                    bad = True
                    chk.violation("C08|binding|composite|spec=%s" % table[pkey(p)]["kind"], "use at %s of module %s is bound to %s, the binding relation says %s, in %r" % (
                        p, m, got, want, rp_["files"][BASE + m + ".oal"][:200]), {"prog_text": rp_["files"], "module": m, "use": p, "real": got, "spec": want})
        if not bad:
            comp_ok += 1
            chk.cov["traces_validated_against_impl"] += 1
            comp_acc.append((prog, rp_, f))
    accepted_progs.extend(comp_acc)
    chk.notes["composites_with_shadowing"] = {"generated": len(cps), "binding_tables_equal": comp_ok}
    # evaluation honours the binding, in general: the evaluated document of every accepted member of the Scopes family
    # must be the denotation Den.tla gives it (oracle mode)
    acc = [(p, rp_, f) for p, rp_, f in accepted_progs if f.get("outcome") == "ok" and f.get("emit", {}).get("result") == "ok"]
    if tier == "quick" and len(acc) > 300:
        acc = rng.sample(acc, 300)
    dens, drs = oracle.den([a[0] for a in acc], chunk=300, timeout=1800)
    for r2 in drs:
        chk.add_tlc(r2)
    scope_same = 0
    for (p, rp_, f), dn in zip(acc, dens):
        if dn is None or not dn["defined"]:
            continue
        diffs = absdoc.compare_docs(absdoc.expected_doc(dn), absdoc.abstract_doc(f["doc"], c02.K))
        if diffs:
            if diffs[0][0] == "two-resources-one-path":
                continue
            refnames = [st["s"] for stmts in p["mods"].values() for st in stmts if st["k"] == "decl" and st["s"].startswith("@")]
            if len(refnames) != len(set(refnames)) and all(k.startswith("component") for k, _ in diffs):
                # two modules declare the same @name: the document has one component of that name
                chk.violation("C08|evaluation|same-reference-name-in-two-modules", "two modules declare the same reference name; the component of that name holds the value of one of them, "
                              "whichever module the use is bound to (%s): %r" % (diffs[0][1][:160], rp_["files"][BASE + "m1.oal"][:160]), {"prog_text": rp_["files"], "differences": diffs[:4]})
                continue
            chk.violation("C08|evaluation|scopes|%s" % diffs[0][0], "the evaluated document is not the one the lexical binding gives (%s): %r" % (
                diffs[0][1][:200], rp_["files"][BASE + "m1.oal"][:200]), {"prog_text": rp_["files"], "differences": diffs[:4]})
        else:
            scope_same += 1
            chk.cov["traces_validated_against_impl"] += 1
    chk.notes["scopes_members_equal_to_denotation"] = "%d/%d" % (scope_same, len(acc))
    # evaluation honours the binding when caller and callee use the same names: the DynScope family, denotation by Den.tla
    # (lexical environments) against the evaluated document
    rd = run_tlc("DenMC", "Den_dynscope.cfg", workers=4, timeout=900, java_opts=["-Xss512m"])
    chk.add_tlc(rd)
    if not rd.ok:
        raise common.ToolError("DenMC failed on dynscope: %s" % (rd.violation or "")[:600])
    members = [c for c in rd.cases if c["defined"]]
    drps = [render.render_program(c["prog"], style=(i + common.seed()) % 4) for i, c in enumerate(members)]
    dcases = [{"main": rp_["main"], "files": rp_["files"], "want": {"doc": True}} for rp_ in drps]
    dobs = run_oalv_parallel("compile", dcases, jobs=8)
    dsame = 0
    for c, hc, o in zip(members, dcases, dobs):
        if o.get("outcome") != "ok" or o.get("emit", {}).get("result") != "ok":
            continue
        diffs = absdoc.compare_docs(absdoc.expected_doc(c), absdoc.abstract_doc(o["doc"], c02.K))
        if diffs:
            chk.violation("C08|evaluation|caller-callee-names|%s" % diffs[0][0], "the evaluated document is not the one the lexical binding gives (%s): %r" % (
                diffs[0][1][:200], hc["files"][hc["main"]][:200]), {"prog_text": hc["files"], "differences": diffs[:4]})
        else:
            dsame += 1
            chk.cov["traces_validated_against_impl"] += 1
    if len(members) < 30 or (dsame == 0 and not chk.violations):
        raise common.ToolError("DynScope family: %d members defined, %d compared - the evaluation part would be vacuous" % (len(members), dsame))
    chk.notes["dynscope_members_equal_to_denotation"] = "%d/%d" % (dsame, len(members))
    chk.cov["evaluations"] = 3 * len(progs) + len(members)
    chk.cov["distinct_nontrivial"] = nontrivial + len(members)
    chk.notes["dynamic_agreement_checked"] = dyn
    chk.cov["exhaustive"] = True
    chk.cov["rule"] = ("the Scopes family of ResolveMC.tla: contested name in {n, concat} x unqualified import x qualified import x declaration (absent, before, "
                       "after the use) x parameter name x rec binder name x use site (top level, function body, rec body, rec in function body, qualified, after a rec at top level / in a function body); "
                       "programs are distinct records; non-trivial = every use has a binder (a complete binding table is compared); plus the DynScope family of Families.tla "
                       "(callee parameters a, b[, c] x caller binder in {a, b, z} as function parameter or rec binder x argument patterns x local/imported callee), whose "
                       "evaluated document must equal the denotation Den.tla computes with lexical environments; plus seeded random composite programs in which binders take "
                       "the names of other binders in scope (60 quick / 500 thorough): binding tables from ResolveMC.tla in oracle mode, documents from Den.tla")
    if progs:
        rendered = passes[0][1]
        chk.sample({"program": rendered[len(progs) // 3]["files"][BASE + "m1.oal"], "spec_table_main": progs[len(progs) // 3]["mods"]["m1"]["table"][:4],
                    "spec_err": progs[len(progs) // 3]["mods"]["m1"]["err"]})
    chk.assumptions = [
        "two unqualified imports defining the same name are outside the domain (the statement gives no precedence among imports); the family has one unqualified import",
        "the renderer's source map is trusted (cross-checked: tree2ast(render(p)) = p in C05/C02)",
        "dynamic agreement is judged through marker properties of the evaluated document, only for members the real compiler accepts",
    ]
    return chk.finish()


def replay(path):
    d = json.load(open(path))
    c = d["case"]
    common.build_harness()
    files = c["prog_text"]
    o = common.run_oalv("compile", [{"main": BASE + "m1.oal", "files": files, "resolve_only": True, "want": {"bindings": True}}])[0]
    for k, v in files.items():
        print(k)
        print(v)
    print("specification:", json.dumps(c.get("spec")))
    print("real:", json.dumps(o)[:2500])
    return 0
