"""C06 — compilation is deterministic: same sources, byte-identical document.

(S) TLC: Determinism.tla - every collection on the output path (references, ranges, transfers,
    properties, examples) with its iteration discipline; Deterministic (at most one entry is
    eligible to be emitted next) and SourceOrder; a second configuration keeps the pinned
    discipline of `examples` (a randomly seeded hash map), where TLC finds the violation itself.
(O) programs that exercise each collection with 2-4 entries (examples at declaration, terminal and
    content level; several references; several (status, media) ranges; several methods;
    multi-module and recursive programs; the repository corpus) are compiled by N fresh oal-cli
    processes and repeatedly in one process after unrelated warm-up compilations: all YAML texts
    must be byte-identical, and the order of the entries of each collection must be the source
    order the specification prescribes.
"""
import concurrent.futures as cf
import os
import subprocess
import json
import random

import cli
import common
import corpus
from common import Check, run_tlc, run_oalv

PROGRAMS = [
    ("examples-on-reference", {"main.oal": '# examples: { e1: "u/1.json", e2: "u/2.json", e3: "u/3.json", e4: "u/4.json" }\nlet @o = { \'a num };\nres / on get -> <@o>;\n'}),
    ("examples-on-content", {"main.oal": 'let c = <{ \'a num }> `examples: { x: "x.json", y: "y.json", z: "z.json", w: "w.json" }`;\nres /c on get -> c;\n'}),
    ("examples-both", {"main.oal": '# examples: { s1: "s1", s2: "s2", s3: "s3" }\nlet s = { \'k str };\nlet c = <s> `examples: { c1: "c1", c2: "c2", c3: "c3" }`;\nres /b on put : c -> c :: <status=404, s>;\n'}),
    ("examples-on-domain", {"main.oal": '# examples: { a1: "1", a2: "2", a3: "3", a4: "4", a5: "5" }\nlet d = { \'k str };\nres /d on post : <d> -> <>;\n'}),
    ("many-references", {"main.oal": "let @a = { 'x @b, 'y @c, 'z @d };\nlet @b = { 'p num };\nlet @c = [@d];\nlet @d = { 'q @a };\nres / on get -> <@a> :: <status=404, @c>;\n"}),
    ("many-ranges-and-methods", {"main.oal": 'res /r on get, put, patch, delete -> <status=200, media="a/x", {}> :: <status=200, media="b/y", num> :: <status=404, str> :: <status=5XX, {}> :: <>;\n'}),
    ("rec-in-functions", {"main.oal": "let f x = rec r { 'v x, 'next [r] };\nlet g y = { 'l f y, 'r f int };\nres / on get -> <{ 'a f num, 'b f str, 'c g bool }>;\nres /ints on get -> f int;\n"}),
    ("many-headers-params-tags", {"main.oal": "let h1 = 'ETag! str;\nlet h2 = 'X-Rate-Limit int;\nlet h3 = 'X-Rate-Reset int;\nlet h4 = 'Retry-After int;\n"
                                      "# tags: [alpha, beta, gamma, delta], summary: \"s\"\nlet op = get, put { 'q1 str, 'q2! int, 'q3 bool, 'q4 num } : <headers={ 'If-Match str, 'If-None-Match str, 'X-A str }, {}> "
                                      "-> <status=200, headers={ h1, h2, h3, h4 }, { 'a! num, 'b! str, 'c! bool, 'd! int, 'e num }> :: <status=404, headers={ h2, h3, h4 }, {}>;\n"
                                      "res /things/{ 'id int }/{ 'sub str }?{ 'p1 str, 'p2 int, 'p3 bool } on op;\nres /other on get -> <{}>;\nres /third on get -> <{}>;\nres /fourth on get -> <{}>;\n"}),
    ("enums-and-facets", {"main.oal": "let color = str `enum: [red, green, blue, black], pattern: \"^[a-z]+$\", minLength: 3, maxLength: 5`;\nlet n = num `minimum: 0, maximum: 9.5, multipleOf: 0.5, example: 2`;\n"
                              "let @pal = { 'c1! color, 'c2! color, 'c3! color, 'n n } `title: \"t\", description: \"d\"`;\nres /pal on get -> <@pal> `description: \"palette\"`;\n"}),
    ("string-formats", {"main.oal": "let @event = { 'id! int `minimum: 1`, 'createdAt! str `format: date-time`, 'day str `format: date`, 'at str `format: time`, "
                                    "'uid str `format: uuid`, 'mail str `format: email`, 'kind str `enum: [created, deleted]` };\n"
                                    "res /events?{ 'since str `format: date-time`, 'on str `format: date` } on get -> <status=200, headers={ 'Last-Modified str `format: date-time` }, [@event]>;\n"}),
    ("two-modules", {"main.oal": 'use "m.oal";\nuse "n.oal" as q;\n# examples: { m1: "1", m2: "2", m3: "3" }\nlet @top = { \'t t, \'u q.@u };\nres / on get -> <@top>;\n',
                     "m.oal": "let t = rec x { 'kids [x] };\n", "n.oal": '# examples: { n1: "1", n2: "2", n3: "3" }\nlet @u = { \'w num };\n'}),
]


# working directory of the process relative to the (fixed) location of the sources: there, two levels below, the parent
CWD_MODES = [None, None, "sub", None, "parent", "sub", "parent"]


def runs_of(files, n):
    outs = []
    for _ in range(n):
        r = cli.run(files, workdir=None)
        outs.append((r["exit"], r["target"]))
    return outs


def examples_order(yaml_text):
    """the sequences of keys of every `examples:` mapping in the YAML text, in document order"""
    seqs = []
    lines = yaml_text.split("\n")
    i = 0
    while i < len(lines):
        ln = lines[i]
        if ln.strip() == "examples:":
            ind = len(ln) - len(ln.lstrip())
            keys = []
            j = i + 1
            while j < len(lines) and (len(lines[j]) - len(lines[j].lstrip())) > ind:
                if (len(lines[j]) - len(lines[j].lstrip())) == ind + 2 and lines[j].strip().endswith(":"):
                    keys.append(lines[j].strip()[:-1])
                j += 1
            seqs.append(keys)
            i = j
        else:
            i += 1
    return seqs


def run(tier):
    chk = Check("C06", tier)
    rng = random.Random(common.seed())
    common.build_harness()
    common.build_bins()
    r = run_tlc("Determinism", "Determinism.cfg", workers=4, timeout=300)
    chk.add_tlc(r)
    if not r.ok:
        chk.violation("C06|design", "Determinism.tla: a collection on the output path is iterated in an order that is not a function of the sources", {"tlc": r.violation})
    rp = run_tlc("Determinism", "Determinism_pinned.cfg", workers=4, timeout=300)
    chk.add_tlc(rp)
    chk.notes["model_selftest"] = "Determinism_pinned.cfg (examples in a randomly seeded hash map): TLC %s" % ("finds two eligible entries" if not rp.ok else "FAILED to find the nondeterminism")
    if rp.ok:
        raise common.ToolError("self-test: TLC no longer finds the nondeterminism of the hashed discipline")
    for cfgname, what in (("Determinism_pinned_counter.cfg", "scope ids from a process-wide counter"), ("Determinism_pinned_clock.cfg", "a default computed from the wall clock"),
                          ("Determinism_pinned_cwd.cfg", "the module location digested relative to the working directory")):
        rq = run_tlc("Determinism", cfgname, workers=2, timeout=300)
        chk.add_tlc(rq)
        if rq.ok:
            raise common.ToolError("self-test: TLC no longer finds the dependence on ambient state (%s)" % what)
        chk.notes["model_selftest"] += "; %s (%s): TLC finds AmbientFree violated" % (cfgname, what)
    progs_ = list(PROGRAMS)
    base = [(n, {"main.oal": t}) for n, t in corpus.texts() if "use " not in t and len(t) < 3000]
    rng.shuffle(base)
    progs_ += base[:6 if tier == "quick" else 60]
    nproc = 8 if tier == "quick" else 48

    # the wall clock: a shim (driver/faketime.c, LD_PRELOAD) shifts the time the process sees - by more than a year, by a
    # second - for the last runs of every program
    shim = os.path.join(common.workdir("c06-shim"), "faketime.so")
    os.makedirs(os.path.dirname(shim), exist_ok=True)
    cc = subprocess.run(["clang", "-shared", "-fPIC", "-O1", "-w", "-o", shim, os.path.join(os.path.dirname(os.path.abspath(__file__)), "faketime.c"), "-ldl"],
                        stdout=subprocess.PIPE, stderr=subprocess.STDOUT, text=True)
    if cc.returncode != 0:
        raise common.ToolError("cannot build the wall-clock shim: %s" % cc.stdout[-400:])
    shifts = [None] * (nproc - 3) + [34567890 + 1, 86400 * 3 + 7, -86400 * 200]

    def one(p):
        name, files = p
        import threading
        d = common.workdir("c06-%s-%d" % ("".join(ch for ch in name if ch.isalnum())[:30], threading.get_ident() % 100000))
        outs = []
        for k in range(nproc):
            sh = shifts[k]
            # every second run finds a longer file at the target (what an earlier compilation of another program may have left)
            r_ = cli.run(files, workdir=d, target_exists=(k % 2 == 1), cwd_mode=CWD_MODES[k % len(CWD_MODES)], env_extra=None if sh is None else {"LD_PRELOAD": shim, "OALV_TIME_OFFSET": str(sh)})
            outs.append((r_["exit"], r_["target"]))
        return outs
    with cf.ThreadPoolExecutor(max_workers=8) as ex:
        results = list(ex.map(one, progs_))
    nontrivial = 0
    for (name, files), outs in zip(progs_, results):
        exits = set(o[0] for o in outs)
        if exits != {0}:
            if exits == {1}:
                if name in dict(PROGRAMS):
                    raise common.ToolError("directed determinism program %s is rejected by the compiler: the check would be vacuous" % name)
                continue          # not an accepted program (corpus): outside the property
            chk.violation("C06|exit-differs", "%s: exit codes differ between runs: %s" % (name, sorted(exits)), {"files": files})
            continue
        texts = set(o[1] for o in outs)
        nontrivial += 1
        if len(texts) > 1:
            ts = sorted(texts)
            # which collection differs?  or only the runs under a shifted wall clock?
            unshifted = set(o[1] for o, sh in zip(outs, shifts) if sh is None)
            by_cwd = {}
            for k_, o in enumerate(outs):
                if shifts[k_] is None:
                    by_cwd.setdefault(CWD_MODES[k_ % len(CWD_MODES)], set()).add(o[1])
            cwd_only = len(unshifted) > 1 and all(len(v) == 1 for v in by_cwd.values())
            what = "working-directory" if cwd_only else "wall-clock" if len(unshifted) == 1 else ("examples" if examples_order(ts[0]) != examples_order(ts[1]) else "other")
            chk.violation("C06|bytes-differ|%s" % what, "%s: %d different YAML texts in %d fresh processes (%s)" % (
                              name, len(texts), nproc, "the runs under a shifted wall clock differ" if what == "wall-clock" else "the runs started from different working directories differ" if what == "working-directory" else "the order of `%s` entries differs" % what),
                          {"files": files, "variants": ts[:2]})
            continue
        chk.cov["traces_validated_against_impl"] += 1
        # source order of examples (SourceOrder of the specification)
        y = next(iter(texts))
        for keys in examples_order(y):
            srcpos = [files["main.oal"].find(k + ":") if k + ":" in files["main.oal"] else None for k in keys]
            if None not in srcpos and srcpos != sorted(srcpos) and name in dict(PROGRAMS):
                chk.violation("C06|examples-not-in-source-order", "%s: examples are emitted as %s, not in source order" % (name, keys), {"files": files, "yaml": y})
    # in-process: the same program compiled repeatedly, interleaved with unrelated compilations
    B = "file:///w/"
    for name, files in PROGRAMS:
        case = {"main": B + "main.oal", "files": {B + k: v for k, v in files.items()}, "want": {"yaml": True}}
        seqc = []
        for k in range(3):
            seqc.append(case if k == 0 else dict(case, own_thread=True))      # the later ones each on a thread of their own
            seqc.append({"main": B + "main.oal", "files": {B + "main.oal": "let z%d = { 'w%d num };\nres /%d on get -> <z%d>;\n" % (k, k, k, k)}, "want": {"yaml": True}})
        obs = run_oalv("compile", seqc)
        if any(o.get("yaml") is None for o in obs[0::2]):
            raise common.ToolError("directed determinism program %s is not compiled to a document: %s" % (name, json.dumps(obs[0])[:300]))
        ys = set(o.get("yaml") for o in obs[0::2])
        if len(ys) > 1:
            chk.violation("C06|bytes-differ|in-process", "%s: repeated compilation in one process (on different threads) gives %d different YAML texts" % (name, len(ys)), {"files": files})
        else:
            chk.cov["traces_validated_against_impl"] += 1
    chk.cov["evaluations"] = len(progs_) * nproc + len(PROGRAMS) * 3
    chk.cov["distinct_nontrivial"] = nontrivial
    chk.cov["rule"] = ("8 directed programs exercising every collection on the output path with 2-5 entries (examples at three levels, references, ranges, methods, rec in "
                       "functions, two imported modules) + accepted single-file programs of the repository corpus; each compiled by %d fresh oal-cli processes (every second one over an existing, much longer target file; started from the sources' directory, from two levels below it and from its parent, the module named by the corresponding relative path; the last three under a wall clock shifted by +400 days, +3 days, -200 days through an LD_PRELOAD shim) and 3 "
                       "times in one process; non-trivial = accepted programs" % nproc)
    chk.sample({"program": PROGRAMS[0][1], "processes": nproc})
    chk.assumptions = [
        "process-level nondeterminism (hash seeds) is observed over N processes, not modelled: with k >= 3 entries in a hashed collection the probability that N runs agree by chance is below (1/k!)^(N-1)",
        "same sources at the same locations: every run of a program uses the same absolute file locations; the working directory of the process and the relative spelling of the main module vary",
    ]
    return chk.finish()


def replay(path):
    d = json.load(open(path))
    c = d["case"]
    outs = set()
    for _ in range(8):
        r = cli.run(c["files"])
        outs.add(r["target"])
    print("%d different outputs in 8 runs" % len(outs))
    return 1 if len(outs) > 1 else 0
