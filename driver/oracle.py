"""Oracle (file) mode of the program-level specifications: KindsMC / EvalAbsMC / DenMC take the
programs from an ndjson file (one initial state per program) and print their verdict for each,
so that any program in the abstract syntax - random composites (gen.py), the repository's own
sources (through tree2ast) - is judged by the same TLA+ definitions as the exhaustive families."""
import json
import os

import common
from common import run_tlc


def strip_ann(n, keep=False):
    m = dict(n)
    m["ann"] = list(n.get("ann") or []) if keep else []
    m["a"] = [strip_ann(c, keep) for c in n["a"]]
    m.pop("spelling", None)
    return m


KEEP_ANN = [False]            # set by callers whose specification gives annotations a meaning (Den.tla)


def normal(prog):
    return {"main": prog["main"], "mods": {k: [strip_ann(st, KEEP_ANN[0]) for st in v] for k, v in prog["mods"].items()}}


def _write(programs, tag):
    d = common.workdir("oracle")
    path = os.path.join(d, "%s_%d.ndjson" % (tag, os.getpid()))
    with open(path, "w") as f:
        for p in programs:
            f.write(json.dumps(normal(p)) + "\n")
    return path


def _run(module, cfg, programs, tag, chunk=400, timeout=1800, java_opts=("-Xss1g",), workers=8):
    """returns a list (one per program) of CASE payloads (None where TLC printed nothing)"""
    out = [None] * len(programs)
    results = []
    for lo in range(0, len(programs), chunk):
        part = programs[lo:lo + chunk]
        path = _write(part, tag)
        try:
            r = run_tlc(module, cfg, workers=workers, timeout=timeout, java_opts=list(java_opts), env_extra={"PROGRAMS": path})
        finally:
            os.unlink(path)
        results.append(r)
        if not r.ok:
            raise common.ToolError("%s/%s failed: %s" % (module, cfg, (r.violation or "")[:1500]))
        for c in r.cases:
            out[lo + c["idx"] - 1] = c
    return out, results


def kinds(programs, **kw):
    return _run("KindsMC", "Kinds_file.cfg", programs, "kinds", **kw)


def evalabs(programs, **kw):
    return _run("EvalAbsMC", "EvalAbs_file.cfg", programs, "evalabs", **kw)


def den(programs, **kw):
    KEEP_ANN[0] = True
    try:
        return _run("DenMC", "Den_file.cfg", programs, "den", **kw)
    finally:
        KEEP_ANN[0] = False


def _strip(n):
    return {"k": n["k"], "s": n["s"], "q": n["q"], "n": n["n"], "a": [_strip(x) for x in n["a"]]}


def crosscheck(programs, rps):
    """tree2ast(render(p)) = p for every module of every program; returns the indices that are fine.
    A module the real parser rejects is left to the caller (rendering of ill-sorted programs may be unparseable)."""
    jobs = []
    for i, (p, rp) in enumerate(zip(programs, rps)):
        for m in p["mods"]:
            jobs.append((i, m, rp["files"]["file:///w/" + m + ".oal"]))
    back = common.run_oalv_parallel("tree2ast", [{"text": t} for _, _, t in jobs], jobs=8)
    good = set(range(len(programs)))
    for (i, m, t), b in zip(jobs, back):
        if b.get("outcome") != "ok" or b.get("ast") is None:
            good.discard(i)
            continue
        got = [_strip(dict(st, s=st["s"][:-4]) if st["k"] == "use" and st["s"].endswith(".oal") else st) for st in b["ast"]]
        if got != [_strip(st) for st in programs[i]["mods"][m]]:
            raise common.ToolError("renderer cross-check failed (tree2ast(render(p)) != p) on %r" % t[:300])
    return good


def resolve(programs, chunk=150, timeout=1800):
    """ResolveMC.tla on the programs: the steps of resolve() against the declarative binding relation (invariants), and the
    binding tables as CASE lines [prog, mod, err, table].  Returns (cases, results)."""
    cases = []
    results = []
    for lo in range(0, len(programs), chunk):
        part = programs[lo:lo + chunk]
        path = _write(part, "resolve")
        try:
            r = run_tlc("ResolveMC", "Resolve_file.cfg", workers=8, timeout=timeout, env_extra={"PROGRAMS": path})
        finally:
            os.unlink(path)
        results.append(r)
        cases.extend(r.cases)
    return cases, results
