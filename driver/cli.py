"""Runner for the real oal-cli binary in a private directory."""
import os
import shutil
import subprocess

import common

# previous content of the target: much longer than any document written over it (a target that is overwritten without
# being truncated keeps a tail of it)
SENTINEL = "# sentinel: previous target content\n" + "".join("# line %04d of the previous target ............................................................\n" % i for i in range(600))


def run(files, main="main.oal", base=None, via_config=False, target_exists=False, workdir=None, timeout=60.0, extra_args=None, env_extra=None, cwd_mode=None):
    """files: {relative path: text}. Returns dict(exit, stderr, stdout, target: text|None, target_changed, timed_out)."""
    common.build_bins()
    d = workdir or common.workdir("cli")
    if os.path.isdir(d):
        shutil.rmtree(d)
    os.makedirs(d)
    for rel, text in files.items():
        p = os.path.join(d, rel)
        os.makedirs(os.path.dirname(p), exist_ok=True)
        with open(p, "w", encoding="utf-8", newline="") as f:
            f.write(text)
    if base is not None:
        with open(os.path.join(d, "base.yaml"), "w") as f:
            f.write(base)
    tpath = os.path.join(d, "out.yaml")
    if target_exists:
        with open(tpath, "w") as f:
            f.write(SENTINEL)
    dpath = os.path.join(d, "conf_out.yaml")
    if via_config == "both":
        # the configuration file names a decoy main module, a decoy target and a decoy base; the options name the real ones
        with open(os.path.join(d, "decoy.oal"), "w") as f:
            f.write("res / on get -> <decoy_is_not_defined>;\n")
        if target_exists:
            with open(dpath, "w") as f:
                f.write(SENTINEL)
        if base is not None:
            with open(os.path.join(d, "decoy_base.yaml"), "w") as f:
                f.write("openapi: 3.0.3\ninfo: {title: decoy, version: '0'}\npaths: {}\n")
        with open(os.path.join(d, "oal.toml"), "w") as f:
            f.write('[api]\nmain = "decoy.oal"\ntarget = "conf_out.yaml"\n' + ('base = "decoy_base.yaml"\n' if base is not None else ""))
        args = [common.OAL_CLI, "-c", "oal.toml", "-m", main, "-t", "out.yaml"] + (["-b", "base.yaml"] if base is not None else [])
    elif via_config:
        with open(os.path.join(d, "oal.toml"), "w") as f:
            f.write('[api]\nmain = "%s"\ntarget = "out.yaml"\n' % main + ('base = "base.yaml"\n' if base is not None else ""))
        args = [common.OAL_CLI, "-c", "oal.toml"]
    else:
        args = [common.OAL_CLI, "-m", main, "-t", "out.yaml"] + (["-b", "base.yaml"] if base is not None else [])
    if extra_args:
        args += extra_args
    rundir = d
    if cwd_mode and not via_config:
        # same files at the same absolute locations, the process started from another working directory
        if cwd_mode == "sub":
            rundir = os.path.join(d, "cwdsub", "deeper")
            os.makedirs(rundir, exist_ok=True)
            pre = "../../"
        else:
            rundir = os.path.dirname(d)
            pre = os.path.basename(d) + "/"
        args = [common.OAL_CLI, "-m", pre + main, "-t", pre + "out.yaml"] + (["-b", pre + "base.yaml"] if base is not None else []) + (extra_args or [])
    try:
        env = dict(os.environ)
        env["RUST_BACKTRACE"] = "0"
        if env_extra:
            env.update(env_extra)
        p = subprocess.run(args, cwd=rundir, stdout=subprocess.PIPE, stderr=subprocess.PIPE, timeout=timeout, env=env)
        rc, out, err, to = p.returncode, p.stdout.decode("utf-8", "replace"), p.stderr.decode("utf-8", "replace"), False
    except subprocess.TimeoutExpired as e:
        rc, out, err, to = None, "", (e.stderr or b"").decode("utf-8", "replace"), True
    target = None
    if os.path.exists(tpath):
        with open(tpath, encoding="utf-8", errors="replace") as f:
            target = f.read()
    changed = (target is not None) if not target_exists else (target != SENTINEL)
    decoy = None
    if os.path.exists(dpath):
        with open(dpath, encoding="utf-8", errors="replace") as f:
            decoy = f.read()
    decoy_changed = (decoy is not None) if not (via_config == "both" and target_exists) else (decoy != SENTINEL)
    return {"exit": rc, "stdout": out, "stderr": err, "target": target, "target_changed": changed, "decoy_changed": decoy_changed,
            "timed_out": to, "dir": d}
