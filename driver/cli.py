"""Runner for the real oal-cli binary in a private directory."""
import os
import shutil
import subprocess

import common

SENTINEL = "# sentinel: previous target content\n"


def run(files, main="main.oal", base=None, via_config=False, target_exists=False, workdir=None, timeout=60.0, extra_args=None):
    """files: {relative path: text}. Returns dict(exit, stderr, stdout, target: text|None, target_changed, timed_out)."""
    common.build_bins()
    d = workdir or common.workdir("cli")
    if os.path.isdir(d):
        shutil.rmtree(d)
    os.makedirs(d)
    for rel, text in files.items():
        p = os.path.join(d, rel)
        os.makedirs(os.path.dirname(p), exist_ok=True)
        with open(p, "w", encoding="utf-8", newline="") as f:
            f.write(text)
    if base is not None:
        with open(os.path.join(d, "base.yaml"), "w") as f:
            f.write(base)
    tpath = os.path.join(d, "out.yaml")
    if target_exists:
        with open(tpath, "w") as f:
            f.write(SENTINEL)
    if via_config:
        with open(os.path.join(d, "oal.toml"), "w") as f:
            f.write('[api]\nmain = "%s"\ntarget = "out.yaml"\n' % main + ('base = "base.yaml"\n' if base is not None else ""))
        args = [common.OAL_CLI, "-c", "oal.toml"]
    else:
        args = [common.OAL_CLI, "-m", main, "-t", "out.yaml"] + (["-b", "base.yaml"] if base is not None else [])
    if extra_args:
        args += extra_args
    try:
        env = dict(os.environ)
        env["RUST_BACKTRACE"] = "0"
        p = subprocess.run(args, cwd=d, stdout=subprocess.PIPE, stderr=subprocess.PIPE, timeout=timeout, env=env)
        rc, out, err, to = p.returncode, p.stdout.decode("utf-8", "replace"), p.stderr.decode("utf-8", "replace"), False
    except subprocess.TimeoutExpired as e:
        rc, out, err, to = None, "", (e.stderr or b"").decode("utf-8", "replace"), True
    target = None
    if os.path.exists(tpath):
        with open(tpath, encoding="utf-8", errors="replace") as f:
            target = f.read()
    changed = (target is not None) if not target_exists else (target != SENTINEL)
    return {"exit": rc, "stdout": out, "stderr": err, "target": target, "target_changed": changed, "timed_out": to, "dir": d}
