"""A minimal JSON-RPC client for the real oal-lsp binary (single client thread, so the order of
messages sent and received is total)."""
import json
import os
import subprocess
import threading
import queue
import time

import common


def uri_of(path):
    return "file://" + path


class Server:
    def __init__(self, root, folders=None):
        """root: workspace folder (must contain oal.toml)"""
        common.build_bins()
        self.root = root
        self.p = subprocess.Popen([common.OAL_LSP], stdin=subprocess.PIPE, stdout=subprocess.PIPE,
                                  stderr=subprocess.DEVNULL, cwd=root)
        self.q = queue.Queue()
        self.t = threading.Thread(target=self._reader, daemon=True)
        self.t.start()
        self.next_id = 1
        self.diags = {}          # uri -> last published diagnostics
        self.published = []      # every publishDiagnostics in wire order
        self.log = []            # (direction, message) in wire order
        folders = folders if folders is not None else [root]
        r = self.request("initialize", {
            "processId": None, "rootUri": uri_of(root),
            "capabilities": {"general": {"positionEncodings": ["utf-16"]}},
            "workspaceFolders": [{"uri": uri_of(f), "name": os.path.basename(f)} for f in folders],
        })
        self.capabilities = r
        self.notify("initialized", {})

    def _reader(self):
        f = self.p.stdout
        while True:
            headers = {}
            line = f.readline()
            if not line:
                self.q.put(None)
                return
            while line and line.strip():
                k, _, v = line.decode().partition(":")
                headers[k.strip().lower()] = v.strip()
                line = f.readline()
            n = int(headers.get("content-length", "0"))
            body = f.read(n)
            if len(body) < n:
                self.q.put(None)
                return
            self.q.put(json.loads(body))

    def _send(self, msg):
        data = json.dumps(msg).encode()
        self.log.append(("sent", msg))
        try:
            self.p.stdin.write(b"Content-Length: %d\r\n\r\n" % len(data) + data)
            self.p.stdin.flush()
        except (BrokenPipeError, OSError):
            pass

    def notify(self, method, params):
        self._send({"jsonrpc": "2.0", "method": method, "params": params})

    def request(self, method, params, timeout=30.0):
        """sends a request and waits for its response; notifications received meanwhile are recorded.
        Returns the result, or {"__dead__": exit code} if the server went away, {"__timeout__": True} if it hangs."""
        rid = self.next_id
        self.next_id += 1
        self._send({"jsonrpc": "2.0", "id": rid, "method": method, "params": params})
        deadline = time.time() + timeout
        while True:
            left = deadline - time.time()
            if left <= 0:
                return {"__timeout__": True}
            try:
                m = self.q.get(timeout=left)
            except queue.Empty:
                return {"__timeout__": True}
            if m is None:
                try:
                    rc = self.p.wait(timeout=5)
                except subprocess.TimeoutExpired:
                    rc = None
                return {"__dead__": rc}
            self.log.append(("received", m))
            if "id" in m and m.get("id") == rid and "method" not in m:
                if "error" in m:
                    return {"__error__": m["error"]}
                return m.get("result")
            if m.get("method") == "textDocument/publishDiagnostics":
                self.diags[m["params"]["uri"]] = m["params"]["diagnostics"]
                self.published.append(m["params"])

    def alive(self):
        return self.p.poll() is None

    # ---- document notifications
    def open(self, uri, text):
        self.notify("textDocument/didOpen", {"textDocument": {"uri": uri, "languageId": "oal", "version": 1, "text": text}})

    def change(self, uri, changes):
        """changes: list of {"range": {"start":{line,character},"end":{..}} | absent, "text"}"""
        self.notify("textDocument/didChange", {"textDocument": {"uri": uri, "version": 2}, "contentChanges": changes})

    def close(self, uri):
        self.notify("textDocument/didClose", {"textDocument": {"uri": uri}})

    # ---- requests (each is also a barrier: the server refreshes before answering)
    def definition(self, uri, line, ch):
        return self.request("textDocument/definition", {"textDocument": {"uri": uri}, "position": {"line": line, "character": ch}})

    def references(self, uri, line, ch):
        return self.request("textDocument/references", {"textDocument": {"uri": uri}, "position": {"line": line, "character": ch},
                                                        "context": {"includeDeclaration": False}})

    def prepare_rename(self, uri, line, ch):
        return self.request("textDocument/prepareRename", {"textDocument": {"uri": uri}, "position": {"line": line, "character": ch}})

    def rename(self, uri, line, ch, new_name):
        return self.request("textDocument/rename", {"textDocument": {"uri": uri}, "position": {"line": line, "character": ch},
                                                    "newName": new_name})

    def barrier(self, uri):
        """a harmless request; diagnostics are published before the response"""
        return self.definition(uri, 0, 0)

    def stop(self, graceful=False):
        try:
            if graceful and self.alive():
                self.request("shutdown", None, timeout=5.0)
                self.notify("exit", None)
                self.p.stdin.close()
                self.p.wait(timeout=5)
        except Exception:
            pass
        if self.alive():
            self.p.kill()
        try:
            self.p.wait(timeout=5)
        except Exception:
            pass
        for f in (self.p.stdin, self.p.stdout):
            try:
                f.close()
            except Exception:
                pass


def pos_of_offset16(text, off16):
    """(line, character) of a UTF-16 code unit offset in text (client-side model)"""
    line = 0
    col = 0
    i = 0
    units = 0
    while units < off16 and i < len(text):
        c = text[i]
        w = 2 if ord(c) > 0xFFFF else 1
        if c == "\n":
            line += 1
            col = 0
        else:
            col += w
        units += w
        i += 1
    return line, col
