"""Rendering of token-kind sequences to text (representative lexemes per TokenKind)."""

LEX = {
    "Space": [" ", "\n", "\t ", "\r\n"],
    "CommentLine": ["// c\n", "// é€\n"],
    "CommentBlock": ["/* c */", "/* \U0001F600 */"],
    "PrimitiveNum": ["num"], "PrimitiveStr": ["str"], "PrimitiveUri": ["uri"], "PrimitiveBool": ["bool"], "PrimitiveInt": ["int"],
    "PathElementRoot": ["/"], "PathElementSegment": ["/seg", "/a.b~c", "/%20"],
    "MethodGet": ["get"], "MethodPut": ["put"], "MethodPost": ["post"], "MethodPatch": ["patch"], "MethodDelete": ["delete"],
    "MethodOptions": ["options"], "MethodHead": ["head"],
    "ContentMedia": ["media"], "ContentHeaders": ["headers"], "ContentStatus": ["status"],
    "KeywordLet": ["let"], "KeywordRes": ["res"], "KeywordUse": ["use"], "KeywordAs": ["as"], "KeywordOn": ["on"], "KeywordRec": ["rec"],
    "IdentifierValue": ["x", "abc", "a-b$_9", "_"], "IdentifierReference": ["@r", "@a-b_1$"],
    "LiteralNumber": ["0", "200", "18446744073709551615", "18446744073709551616", "123456789012345678901234567890"], "LiteralString": ['""', '"s"', '"é€\U0001F600"', '"a\nb"'],
    "LiteralHttpStatus": ["4XX", "2XX"], "Property": ["'p", "'a-b$@_1"],
    "ControlBraceLeft": ["{"], "ControlBraceRight": ["}"], "ControlParenLeft": ["("], "ControlParenRight": [")"],
    "ControlBracketLeft": ["["], "ControlBracketRight": ["]"], "ControlChevronLeft": ["<"], "ControlChevronRight": [">"],
    "ControlSemicolon": [";"], "ControlFullStop": ["."], "ControlComma": [","],
    "OperatorExclamationMark": ["!"], "OperatorQuestionMark": ["?"], "OperatorAmpersand": ["&"], "OperatorTilde": ["~"],
    "OperatorVerticalBar": ["|"], "OperatorEqual": ["="], "OperatorColon": [":"], "OperatorDoubleColon": ["::"], "OperatorArrow": ["->"],
    "AnnotationLine": ["# a: 1\n", "# description: \"é\"\n"], "AnnotationInline": ["`a: 1`", "`title: \"\U0001F600\"`"],
}

ALPHAS = {
    "expr": (["KeywordLet", "IdentifierValue", "OperatorEqual"],
             ["ControlSemicolon", "ControlParenLeft", "ControlParenRight", "ControlBracketLeft", "ControlBracketRight", "LiteralNumber",
              "OperatorQuestionMark", "OperatorVerticalBar"]),
    "obj": (["KeywordLet", "IdentifierValue", "OperatorEqual"],
            ["ControlSemicolon", "ControlBraceLeft", "ControlBraceRight", "Property", "ControlComma", "PrimitiveNum", "OperatorExclamationMark",
             "OperatorAmpersand"]),
    "rel": (["KeywordRes"],
            ["PathElementRoot", "PathElementSegment", "KeywordOn", "MethodGet", "ControlComma", "OperatorArrow", "ControlChevronLeft",
             "ControlChevronRight", "ControlSemicolon", "OperatorColon", "IdentifierValue"]),
    "app": (["KeywordLet", "IdentifierValue", "OperatorEqual"],
            ["ControlSemicolon", "IdentifierValue", "ControlFullStop", "IdentifierReference", "KeywordRec", "ControlParenLeft", "ControlParenRight",
             "OperatorDoubleColon"]),
    "cnt": (["KeywordLet", "IdentifierValue", "OperatorEqual"],
            ["ControlChevronLeft", "ControlChevronRight", "ContentMedia", "ContentStatus", "OperatorEqual", "LiteralString", "ControlComma",
             "LiteralNumber", "ControlSemicolon"]),
    "stmt": ([], ["KeywordLet", "KeywordRes", "KeywordUse", "KeywordAs", "LiteralString", "IdentifierValue", "IdentifierReference",
                  "OperatorEqual", "ControlSemicolon", "PrimitiveNum", "AnnotationLine", "AnnotationInline"]),
}


def render(kinds, rng, sep=" "):
    """text whose token kinds (trivia aside) are `kinds`; separators avoid accidental merging of lexemes"""
    parts = []
    for k in kinds:
        lx = rng.choice(LEX[k])
        parts.append(lx)
    out = ""
    for p in parts:
        if out and not out.endswith(("\n", " ", "\t")):
            out += rng.choice([sep, sep, "\n", " /* c */ "]) if sep else " "
        out += p
    return out


def family_texts(rng, n):
    out = []
    names = sorted(ALPHAS)
    for _ in range(n):
        pre, al = ALPHAS[rng.choice(names)]
        tail = [rng.choice(al) for _ in range(rng.randint(0, 7))]
        out.append(render(pre + tail, rng))
    return list(dict.fromkeys(out))
