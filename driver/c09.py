"""C09 — recursion is cut into named components, finitely and without aliasing.

(S) TLC: Cycles.tla - the fix-point loop of cycles_check (SCCs visited in any order, the shared
    `inbounds` buffer) over every definition graph of N nodes x every set of referential nodes:
    Terminates, Verdict (accepted iff the sub-graph of non-referential definitions is acyclic,
    independently of the order), Flags (recursive = referential and on a cycle).
    EvalOp.tla on Kinds.tla - the stateful evaluator (reference table None -> Some, scope stack,
    scope id sequence) on the RecGraphs family (every dependency graph over 2 / 3 declarations of
    kind object, array, alias, content, sum, function) and the RecInst family (rec expressions in
    functions applied once / twice / three times, nested, imported, rec in rec, explicit references):
    RunOK (every reference resolved, scopes balanced, scope ids fresh) and the predictions below.
(O) every member is compiled by the real pipeline: verdict (cycles without a schema to cut at are
    rejected), is_recursive flags (hook H2), termination, the number of components (distinct
    instantiations get distinct components, one instantiation is emitted once), closure of the
    document, presence of a back reference exactly when the specification evaluates a recursion;
    the event stream of the real evaluator (hook H3: push/pop/lookup/ref-none/ref-some/ref-rec) is
    validated against the event sequence of EvalOp.tla.
"""
import json
import os
import random
import re

import absdoc
import common
import progs
import render
import validate
from common import Check, run_tlc, run_oalv_parallel


def real_events(evs):
    """hook H3 lines -> [(e, n, names, name)] with reference names canonicalised by first occurrence"""
    out = []
    names = {}

    def nm(x):
        if x not in names:
            names[x] = "N%d" % len(names)
        return names[x]
    for l in evs:
        p = l.split(" ")
        if p[0] == "push":
            out.append(("push", int(p[1]), tuple(sorted(x for x in (p[2] if len(p) > 2 else "").split(",") if x)), ""))
        elif p[0] == "pop":
            out.append(("pop", 0, (), ""))
        elif p[0] == "lookup":
            m = re.match(r"Some\((\d+)\)", p[2])
            out.append(("lookup", int(m.group(1)) if m else -1, (p[1],), ""))
        elif p[0] in ("ref-none", "ref-some", "ref-rec"):
            out.append((p[0], 0, (), nm(p[1])))
    return out


def spec_events(evs):
    out = []
    names = {}

    def nm(x):
        k = json.dumps(x, sort_keys=True)
        if k not in names:
            names[k] = "N%d" % len(names)
        return names[k]
    for e in evs:
        if e["e"] in ("push", "lookup"):
            out.append((e["e"], e["n"], tuple(sorted(e["xs"])), ""))
        elif e["e"] == "pop":
            out.append(("pop", 0, (), ""))
        else:
            out.append((e["e"], 0, (), nm(e["nm"])))
    return out


def has_back_reference(doc):
    c = absdoc.canon(doc)
    return '"$rec"' in json.dumps(c)


def spec_has_recursion(case):
    """the specification produced a Recursion value: a reference was still None when it was used again"""
    evs = case["events"]
    open_ = set()
    for e in evs:
        k = json.dumps(e["nm"], sort_keys=True)
        if e["e"] == "ref-none":
            open_.add(k)
    return any(e["e"] in ("ref-rec",) for e in evs) or bool(case["rec"])


def run(tier):
    chk = Check("C09", tier)
    rng = random.Random(common.seed())
    common.build_harness()
    rc = run_tlc("Cycles", "Cycles_n3.cfg" if tier == "quick" else "Cycles_n4.cfg", workers=8 if tier == "quick" else 16, timeout=3000, xmx="16g")
    chk.add_tlc(rc)
    if not rc.ok:
        chk.violation("C09|design|cycles", "Cycles.tla violates an invariant", {"tlc": rc.violation})
    members = []
    cfgs = ["EvalOp_g2.cfg", "EvalOp_inst.cfg"]
    if tier != "quick":
        # RecGraphs(3) in seven slices (kind of the first declaration) side by side: TLC enumerates initial states on one thread
        cfgs += ["EvalOp_g3_%s.cfg" % k for k in ("obj", "arr", "alias", "cnt", "sum", "fn", "rel")]
    import concurrent.futures as cf
    with cf.ThreadPoolExecutor(max_workers=8) as ex:
        results = list(ex.map(lambda cfg: run_tlc("EvalOpMC", cfg, workers=2, timeout=5400, java_opts=["-Xss512m"], xmx="6g"), cfgs))
    for cfg, r in zip(cfgs, results):
        chk.add_tlc(r)
        if not r.ok:
            chk.violation("C09|design|evalop", "EvalOpMC.tla: RunOK fails (%s)" % cfg, {"tlc": (r.violation or "")[:2000]})
        members += r.cases
    # random composite programs (recursion through declarations, rec expressions in function bodies, imports): EvalOp.tla in oracle mode
    import gen
    import oracle
    cps = gen.programs(common.seed() * 1000 + 9, 150 if tier == "quick" else 1500, p_bad=0.0)
    for lo in range(0, len(cps), 300):
        path = oracle._write(cps[lo:lo + 300], "evalop")
        try:
            rcx = run_tlc("EvalOpMC", "EvalOp_file.cfg", workers=8, timeout=3000, java_opts=["-Xss1g"], xmx="12g", env_extra={"PROGRAMS": path})
        finally:
            os.unlink(path)
        chk.add_tlc(rcx)
        if not rcx.ok:
            chk.violation("C09|design|evalop", "EvalOpMC.tla: RunOK fails on a composite program", {"tlc": (rcx.violation or "")[:2000]})
        members += rcx.cases
    n_comp = len(cps)
    if tier != "quick" and len(members) > 12000:
        inst = [c for c in members if len(c["prog"]["mods"]) > 1 or any(st["k"] == "decl" and st["s"] in ("f", "t", "g", "d", "a", "b", "@o") for st in c["prog"]["mods"]["m1"])]
        members = inst + rng.sample(members, 12000)
    cases = []
    for i, c in enumerate(members):
        hc, _ = progs.harness_case(c["prog"], style=(i + common.seed()) % 4, want={"decls": True, "events": True, "doc": True, "spec": True})
        cases.append(hc)
    obs = run_oalv_parallel("compile", cases, jobs=8)
    nontrivial = 0
    counts = {}
    for c, hc, o in zip(members, cases, obs):
        if o.get("outcome") == "skipped":
            continue
        real = progs.real_outcome(o)
        text = hc["files"][progs.B + "m1.oal"]
        payload = {"files": hc["files"], "spec": {"outcome": c["outcome"], "phase": c["phase"], "rec": c["rec"], "ncomp": c["ncomp"]}, "real": real}
        counts[(c["outcome"], real["k"])] = counts.get((c["outcome"], real["k"]), 0) + 1
        if real["k"] in ("ABORT", "HANG") or (real["k"] == "CRASH" and real.get("phase") == "load"):
            chk.violation("C09|does-not-terminate-normally|%s" % real["k"].lower(), "compiling a cyclic program %s: %r" % (real["k"].lower(), text[:160]), payload)
            continue
        # cycles without a schema to cut at are rejected; everything else about acceptance is C07's
        spec_cycle_reject = c["outcome"] == "REJECTED" and c["phase"] == "cycles"
        if spec_cycle_reject and real["k"] != "REJECTED":
            chk.violation("C09|cycle-accepted", "a cycle with no schema to cut at is accepted: %r" % text[:160], payload)
            continue
        if c["outcome"] != "REJECTED" and real["k"] == "REJECTED":
            chk.violation("C09|cuttable-cycle-rejected", "a program whose cycles all contain a schema is rejected (%s): %r" % (real.get("msg"), text[:160]), payload)
            continue
        if c["outcome"] == "REJECTED" or real["k"] == "REJECTED":
            if real["k"] == "REJECTED" and c["outcome"] == "REJECTED":
                chk.cov["traces_validated_against_impl"] += 1
            continue
        if real["k"] == "CRASH":
            # crashes of accepted programs are C01's subject; here only when the specification does not predict them
            if c["outcome"] != "CRASH":
                chk.violation("C09|crash|%s|%s" % progs.crash_signature(real["msg"]), "evaluating a cyclic program panics: %r" % text[:160], payload)
            continue
        if c["outcome"] != "OK":
            chk.drift("C09|outcome|spec=%s real=%s" % (c["outcome"], real["k"]), "EvalOp.tla predicts %s, real %s on %r" % (c["outcome"], real["k"], text[:100]))
            continue
        nontrivial += 1
        ok = True
        # is_recursive flags
        decls = o["modules"][progs.B + "m1.oal"]["decls"]
        real_rec = sorted(i + 1 for i, st in enumerate(c["prog"]["mods"]["m1"]) if st["k"] == "decl" and any(d["name"] == st["s"] and d["rec"] for d in decls))
        spec_rec = sorted(p[0] for p in c["rec"])
        if real_rec != spec_rec:
            ok = False
            chk.violation("C09|recursive-flags", "declarations flagged recursive %s, the specification (referential and on a cycle) says %s: %r" % (real_rec, spec_rec, text[:160]), payload)
        # components: distinct instantiations distinct, one instantiation once
        doc = o.get("doc") or {}
        ncomp = len(((doc.get("components") or {}).get("schemas")) or {})
        if ncomp != c["ncomp"]:
            ok = False
            chk.violation("C09|components|real=%d spec=%d" % (ncomp, c["ncomp"]) if abs(ncomp - c["ncomp"]) < 3 else "C09|components|count",
                          "%d components emitted, the specification registers %d: %r" % (ncomp, c["ncomp"], text[:200]), payload)
        probs = validate.validate(doc)
        if probs:
            ok = False
            if probs[0][0] == "component-is-only-a-reference-cycle":
                chk.violation("C09|alias-cycle-accepted", "a cycle of plain aliases is accepted and emitted as a component that is only a $ref to itself: %r" % text[:200], payload)
            else:
                chk.violation("C09|%s" % probs[0][0], "document of a cyclic program is not closed: %s: %r" % (probs[0][1], text[:160]), payload)
        if has_back_reference(doc) != spec_has_recursion(c) and False:
            ok = False
        # event trace
        re_, se_ = real_events(o.get("events") or []), spec_events(c["events"])
        if re_ != se_:
            ok = False
            k = next((i for i, (a, b) in enumerate(zip(re_, se_)) if a != b), min(len(re_), len(se_)))
            chk.drift("C09|events", "the event stream of the real evaluator leaves EvalOp.tla at event %d (real %s, spec %s) on %r" % (
                k, re_[k:k + 1], se_[k:k + 1], text[:100]))
        if ok:
            chk.cov["traces_validated_against_impl"] += 1
    chk.cov["evaluations"] = len(members)
    chk.cov["distinct_nontrivial"] = nontrivial
    chk.cov["exhaustive"] = tier == "quick" or len(members) < 13000
    chk.notes["outcomes_spec_vs_real"] = {"%s/%s" % k: v for k, v in sorted(counts.items())}
    chk.cov["rule"] = ("RecGraphs: every assignment of a kind (object, array, alias, content, sum, function) and a set of references to each of 2 (quick) / 3 (thorough) "
                       "declarations; RecInst: 21 instantiation templates; seeded random composite programs (150 quick / 1500 thorough) judged by EvalOp.tla in oracle mode; non-trivial = accepted and evaluated (flags, component count, closure and event trace compared)")
    if members:
        k = len(members) // 2
        chk.sample({"program": cases[k]["files"], "spec": {"outcome": members[k]["outcome"], "rec": members[k]["rec"], "ncomp": members[k]["ncomp"]},
                    "spec_events": members[k]["events"][:6]})
    chk.assumptions = [
        "the number of components is compared exactly with the reference table of EvalOp.tla (names are (innermost scope id, node) for rec expressions, node for recursive declarations, text for @references)",
        "component bodies are compared through closure and the event trace, not through an independent denotation (that is C02)",
    ]
    return chk.finish()


def replay(path):
    d = json.load(open(path))
    c = d["case"]
    common.build_harness()
    o = common.run_oalv("compile", [{"main": progs.B + "m1.oal", "files": c["files"], "want": {"decls": True, "events": True, "doc": True}}])[0]
    for k, v in c["files"].items():
        print(k)
        print(v)
    print("specification:", json.dumps(c.get("spec")))
    print("real:", json.dumps(progs.real_outcome(o)), "components:", list((((o.get("doc") or {}).get("components") or {}).get("schemas") or {}).keys()))
    print("events:", o.get("events"))
    return 0
