"""Sentences of the Oxlip grammar, enumerated by derivation depth (token-kind sequences).

The bounded-exhaustive families of PegMC.tla explore every token string over one construct's
alphabet; the interactions BETWEEN constructs (a postfix operator inside a content's meta-data, an
application inside a URI variable, ...) need longer strings than that bound reaches.  Here the
grammar of spec/OxlipGrammar.tla is used generatively: E(0) are the atoms with postfix operators,
small applications and binary operators; T(1) are all terms whose components come from E(0); E(1)
adds postfix operators, applications and binary operators around T(1); statements wrap E(1).  All
of it is enumerated (a few ten thousand sentences), the quick tier takes a seeded sample."""

ATOMS = [["LiteralNumber"], ["IdentifierValue"], ["PrimitiveNum"]]
POSTFIX = ["OperatorQuestionMark", "OperatorExclamationMark"]
BINOPS = ["OperatorDoubleColon", "OperatorAmpersand", "OperatorTilde", "OperatorVerticalBar"]
METAS = ["ContentStatus", "ContentMedia", "ContentHeaders"]


def uniq(seqs):
    seen = set()
    out = []
    for s in seqs:
        t = tuple(s)
        if t not in seen:
            seen.add(t)
            out.append(list(s))
    return out


def unary(terms):
    out = [list(t) for t in terms]
    for t in terms:
        for p in POSTFIX:
            out.append(t + [p])
    return out


def e0():
    u = unary(ATOMS)
    out = list(u)
    for a in ATOMS:
        out.append(["IdentifierValue"] + a)                       # application
        out.append(["IdentifierValue"] + a + ["LiteralNumber"])
        out.append(["IdentifierValue", "ControlFullStop", "IdentifierValue"] + a)
    for op in BINOPS:
        out.append(["LiteralNumber", op, "IdentifierValue"])
        out.append(["IdentifierValue", op, "PrimitiveNum", op, "LiteralNumber"])
    out.append(["IdentifierValue", "ControlFullStop", "IdentifierValue"])
    out.append(["IdentifierReference"])
    return uniq(out)


def terms1(E):
    """all terms whose components are expressions of E"""
    T = [list(a) for a in ATOMS] + [["LiteralString"], ["LiteralHttpStatus"], ["PrimitiveUri"]]
    small = [list(a) for a in ATOMS]
    for e in E:
        T.append(["ControlBracketLeft"] + e + ["ControlBracketRight"])
        T.append(["ControlParenLeft"] + e + ["ControlParenRight"])
        T.append(["Property"] + e)
        T.append(["Property", "OperatorExclamationMark"] + e)
        T.append(["ControlBraceLeft"] + e + ["ControlBraceRight"])
        T.append(["ControlBraceLeft", "Property"] + e + ["ControlBraceRight"])
        T.append(["ControlBraceLeft", "Property"] + e + ["ControlComma", "Property", "PrimitiveNum", "ControlBraceRight"])
        T.append(["ControlBraceLeft", "Property"] + e + ["ControlComma", "ControlBraceRight"])            # trailing comma
        # contents: body only, meta only, meta and body, two metas, two metas and a body
        T.append(["ControlChevronLeft"] + e + ["ControlChevronRight"])
        for m in METAS:
            T.append(["ControlChevronLeft", m, "OperatorEqual"] + e + ["ControlChevronRight"])
            for a in small:
                T.append(["ControlChevronLeft", m, "OperatorEqual"] + e + ["ControlComma"] + a + ["ControlChevronRight"])
                T.append(["ControlChevronLeft", m, "OperatorEqual"] + a + ["ControlComma"] + e + ["ControlChevronRight"])
                T.append(["ControlChevronLeft", m, "OperatorEqual"] + e + ["ControlComma", "ContentMedia", "OperatorEqual"] + a + ["ControlChevronRight"])
            T.append(["ControlChevronLeft", m, "OperatorEqual"] + e + ["ControlComma", "ContentMedia", "OperatorEqual", "LiteralString", "ControlComma", "PrimitiveNum",
                                                                     "ControlChevronRight"])
        # URIs
        T.append(["PathElementRoot", "ControlBraceLeft"] + e + ["ControlBraceRight"])
        T.append(["PathElementSegment", "PathElementRoot", "ControlBraceLeft"] + e + ["ControlBraceRight", "PathElementSegment"])
        T.append(["PathElementSegment", "OperatorQuestionMark", "ControlBraceLeft", "Property"] + e + ["ControlBraceRight"])
    T.append(["ControlBraceLeft", "ControlBraceRight"])
    T.append(["ControlChevronLeft", "ControlChevronRight"])
    T.append(["PathElementRoot"])
    T.append(["PathElementSegment", "PathElementSegment"])
    return uniq(T)


def xfers(E, T):
    out = []
    small = [list(a) for a in ATOMS]
    for e in E:
        out.append(["MethodGet", "OperatorArrow"] + e)
        out.append(["MethodGet", "ControlComma", "MethodPut", "OperatorArrow"] + e)
        out.append(["MethodGet", "ControlBraceLeft", "Property"] + e + ["ControlBraceRight", "OperatorArrow", "PrimitiveNum"])
        for a in small:
            out.append(["MethodPut", "OperatorColon"] + a + ["OperatorArrow"] + e)
    for t in T[:400]:
        out.append(["MethodPut", "OperatorColon"] + t + ["OperatorArrow", "PrimitiveNum"])
        out.append(["MethodPut", "OperatorColon"] + t + ["OperatorQuestionMark", "OperatorArrow", "PrimitiveNum"])
    return uniq(out)


def sentences():
    E0 = e0()
    T1 = terms1(E0)
    U1 = unary(T1)
    E1 = list(U1)
    for t in T1:
        E1.append(["IdentifierValue"] + t)
        E1.append(["IdentifierValue"] + t + ["OperatorQuestionMark"])
        for op in BINOPS:
            E1.append(t + [op, "IdentifierValue"])
            E1.append(["LiteralNumber", op] + t)
        E1.append(["KeywordRec", "IdentifierValue"] + t)
    X = xfers(E0, T1)
    rels = []
    for x in X:
        rels.append(["PathElementSegment", "KeywordOn"] + x)
        rels.append(["IdentifierValue", "KeywordOn"] + x + ["ControlComma", "MethodPatch", "OperatorArrow", "PrimitiveNum"])
    out = []
    for e in E1 + X + rels:
        out.append(["KeywordLet", "IdentifierValue", "OperatorEqual"] + e + ["ControlSemicolon"])
    for e in rels + E1[::7]:
        out.append(["KeywordRes"] + e + ["ControlSemicolon"])
    for e in E1[::11]:
        out.append(["KeywordLet", "IdentifierValue", "IdentifierValue", "OperatorEqual"] + e + ["ControlSemicolon"])
        out.append(["AnnotationLine", "KeywordLet", "IdentifierValue", "OperatorEqual"] + e + ["AnnotationInline", "ControlSemicolon"])
    return uniq(out)


if __name__ == "__main__":
    s = sentences()
    print(len(s), max(len(x) for x in s))
    for x in s[::len(s) // 12]:
        print(" ".join(x))
