#!/bin/sh
# usage: driver/seed_regress.sh [seed ids...]   — re-applies every kept seeded change to /repo in turn, runs the quick check of
# its property, reverts, and records whether a VIOLATION was reported.  /repo must be clean and left alone meanwhile.
cd /verif || exit 2
[ -n "$(git -C /repo status --short)" ] && { echo "/repo is not clean"; exit 2; }
OUT=/verif/seeded/REGRESSION.txt
: > "$OUT.tmp"
SEEDS="$*"; [ -z "$SEEDS" ] && SEEDS=$(ls seeded | grep -E '^C[0-9]+-[0-9]+$')
for s in $SEEDS; do
  p=${s%%-*}
  if ! git -C /repo apply "/verif/seeded/$s/patch.diff" 2>/dev/null; then echo "$s patch-does-not-apply" >> "$OUT.tmp"; continue; fi
  r=$(./check $p --tier quick 2>&1 | grep -E "^VIOLATION|^OK|^TOOL" | head -1 | cut -c1-160)
  git -C /repo checkout -- .
  case "$r" in VIOLATION*) v=detected;; *) v=MISSED;; esac
  echo "$s $v  $r" >> "$OUT.tmp"
done
# seeds that were not run this time keep their earlier line
if [ -n "$*" ] && [ -f "$OUT" ]; then
  for s in $(awk '{print $1}' "$OUT"); do
    grep -q "^$s " "$OUT.tmp" || grep "^$s " "$OUT" >> "$OUT.tmp"
  done
fi
sort -o "$OUT.tmp" "$OUT.tmp"
mv "$OUT.tmp" "$OUT"
echo DONE
