"""C11 — the syntax tree is lossless and every reported span is exact.

(S) Lex.tla: reference lexer (patterns of lexer.rs as data, maximal munch, literal before regex, lexical error = the
    characters consumed before the automaton got stuck); TLC checks Tiles / Genuine / Maximal / ErrorsJustified on every
    text of up to 4 (quick) / 5 (thorough) characters over six sub-alphabets and the real lexer is run on all of them.

(S) design level: Peg.tla's Lossless / Contiguous (hull) invariants are model-checked by C12 on
    every token sequence of the families (the tree the engine builds has exactly the consumed
    non-trivia tokens as leaves, in order, and no node is stolen by a later alternative).
(T) Tiling.tla is the monitor for the real code: every observation of a real run - tokens and
    lexical errors (logos lexer), the syntax tree with node spans, spans of syntax/compile/eval
    diagnostics and of definitions - is installed as a state and judged by TLC against the
    declarative definitions IsTiling, OnBoundaries, TokenTexts, Lossless, Hull, SpansInText.
    Texts: repository corpus, character- and token-level mutants, arbitrary Unicode strings,
    rendered members of the parser families.
"""
import json
import os
import random

import common
import corpus
from common import Check, run_tlc, run_oalv_parallel, workdir

ALPHA = list("{}()[]<>;.,!?&~|=:/'\"`#@-_ \t\n") + ["\r\n", "a", "b", "z", "A", "0", "1", "9", "X", "let ", "res ", "num", "str",
        "é", "ß", "€", "中", "\U0001F600", "\u0000", "﻿", "->", "::", "//", "/*", "*/", "rec ", "on ", "use "]


def mutate_text(rng, t):
    t = list(t)
    for _ in range(rng.randint(1, 4)):
        op = rng.choice(["ins", "del", "rep", "dupline"])
        i = rng.randrange(len(t) + 1)
        if op == "ins":
            t[i:i] = list(rng.choice(ALPHA))
        elif op == "del" and t:
            del t[min(i, len(t) - 1)]
        elif op == "rep" and t:
            t[min(i, len(t) - 1)] = rng.choice(ALPHA)
        else:
            j = min(len(t), i + rng.randint(1, 12))
            t[i:i] = t[i:j]
    return "".join(t)


def random_text(rng):
    return "".join(rng.choice(ALPHA) for _ in range(rng.randint(0, 40)))


def flat_tree(tree, spans):
    out = []
    pos = [0]

    def go(n):
        sp = spans[pos[0]]
        pos[0] += 1
        s, e = (sp[0], sp[1]) if sp is not None else (-1, -1)
        if isinstance(n, int):
            out.append({"leaf": True, "a": n + 1, "s": s, "e": e})
        else:
            out.append({"leaf": False, "a": len(n) - 1, "s": s, "e": e})
            for c in n[1:]:
                go(c)
    go(tree)
    return out


def observation(text, p, comp):
    """p: output of `oalv parse`; comp: output of `oalv compile` on the same text (or None)"""
    toks = [{"s": t[1], "e": t[2], "trivia": t[3], "textok": t[4]} for t in p["tokens"]]
    errs = [{"s": e[0], "e": e[1]} for e in p["lex_errors"]]
    end = p["end"]
    starts = {t["s"]: i + 1 for i, t in enumerate(toks)}
    rest = len(toks) + 1
    spans = []
    for e in p["errors"]:
        s, en = e[2], e[3]
        if e[0] == "grammar" and e[1].startswith("cannot parse remaining input"):
            rest = starts.get(s, rest)
        eof = (s == end and en == end + 1 and s not in starts)
        spans.append({"s": s, "e": en, "eof": eof, "what": e[0]})
    tree = []
    if p.get("public"):
        tree = flat_tree(p["public"]["tree"], p["public"]["spans"])
    if comp is not None and comp.get("outcome") == "ok":
        def add(sp, what):
            if sp and sp[0] == "file:///w/main.oal":
                spans.append({"s": sp[1], "e": sp[2], "eof": sp[1] == end and sp[2] == end + 1 and sp[1] not in starts, "what": what})
        ld = comp.get("load", {})
        if ld.get("result") == "err" and ld["error"].get("class") == "compiler":
            add(ld["error"].get("span"), "compile-error")
        if comp.get("eval", {}).get("result") == "err":
            add(comp["eval"].get("span"), "eval-error")
        for m in (comp.get("modules") or {}).values():
            for b in m["bindings"]:
                add(b.get("use"), "use")
                if isinstance(b.get("def"), dict) and "span" in b["def"]:
                    add(b["def"]["span"], "definition")
            for d in m["decls"]:
                add(d.get("span"), "declaration")
    return {"len": p["len"], "bounds": p["boundaries"], "toks": toks, "errs": errs, "tree": tree, "rest": rest, "spans": spans}


def diagnose(o, v):
    """signature of a failed verdict (classification only; the verdict itself is TLC's)"""
    for k in ("tiling", "bounds", "texts", "tree", "lossless", "hull"):
        if not v[k]:
            return "C11|" + k
    B = set(o["bounds"])
    for sp in o["spans"]:
        ok = sp["s"] <= sp["e"] and sp["s"] in B and (sp["e"] in B or (sp["eof"] and sp["e"] == o["len"] + 1))
        if not ok:
            if sp["eof"]:
                return "C11|spans|eof-span-ends-inside-text-not-on-boundary"
            if sp["e"] > o["len"]:
                return "C11|spans|%s-span-past-end" % sp["what"]
            return "C11|spans|%s-span-off-boundary" % sp["what"]
    return "C11|spans"


def judge(chk, texts, label):
    pr = run_oalv_parallel("parse", [{"text": t} for t in texts], jobs=12)
    cr = run_oalv_parallel("compile", [{"main": "file:///w/main.oal", "files": {"file:///w/main.oal": t},
                                        "want": {"bindings": True, "decls": True}} for t in texts], jobs=12)
    obs = []
    kept = []
    for t, p, c in zip(texts, pr, cr):
        if p.get("outcome") == "skipped":
            continue
        if p.get("outcome") != "ok":
            chk.violation("C11|parse-%s" % p.get("outcome"), "lexing/parsing %s on %r" % (p.get("outcome"), t[:80]), {"text": t, "obs": p})
            continue
        if len(p["tokens"]) > 700:
            continue
        obs.append(observation(t, p, c if c.get("outcome") == "ok" else None))
        kept.append(t)
    if not obs:
        return 0
    path = os.path.join(workdir(), "tiling_%s.ndjson" % label)
    with open(path, "w") as f:
        for o in obs:
            f.write(json.dumps(o) + "\n")
    r = run_tlc("Tiling", "Tiling_obs.cfg", workers=12, timeout=3000, env_extra={"TILING_OBS": path}, tags=("FAILED",),
                java_opts=["-Xss512m"], xmx="12g")
    chk.add_tlc(r)
    if not r.ok:
        raise common.ToolError("Tiling monitor failed: %s" % (r.violation or "")[:1000])
    failed = r.lines.get("FAILED", [])
    for f in failed:
        i = f["oi"] - 1
        key = diagnose(obs[i], f["v"])
        chk.violation(key, "observation of %r fails %s" % (kept[i][:80], [k for k, v in f["v"].items() if not v]),
                      {"text": kept[i], "verdict": f["v"], "spans": obs[i]["spans"][:20]})
    chk.cov["traces_validated_against_impl"] += len(obs) - len(failed)
    chk.cov["evaluations"] += len(obs)
    sk = chk.notes.setdefault("span_kinds", {}).setdefault(label, {})
    for o in obs:
        for sp in o["spans"]:
            sk[sp["what"]] = sk.get(sp["what"], 0) + 1
    nt = sum(1 for o in obs if len(o["tree"]) > 8 or o["errs"])
    chk.cov["distinct_nontrivial"] += nt
    mid = obs[len(obs) // 2]
    chk.sample({"source": label, "text": kept[len(obs) // 2][:120], "tokens": len(mid["toks"]), "lexical_errors": len(mid["errs"]),
                "tree_nodes": len(mid["tree"]), "spans_checked": len(mid["spans"])})
    return len(obs)


UNI = ["", "é", "€", "中", "\U0001F600", "é€\U0001F600", "a\u0301", "\u00a0"]
DIAG_TEMPLATES = [
    # programs that lex and parse and are rejected by the compiler or the evaluator; {U} = multi-byte characters inside or before
    # the construct the diagnostic points at (strings, comments and annotations are the places that admit them)
    "# title: [caf{U}\nlet a = {{}};\nres / on get -> <a>;\n",
    "# title: \"{U}\n# description: x{V}\nlet a = {{}};\nres / on get -> <a>;\n",
    "let a = {{}} `title: [x{U}`;\nres / on get -> <a>;\n",
    "let a = {{ 'n num `title: \"{U}`, 'm str `description: \"{V}\"` }};\nres / on get -> <a>;\n",
    "# description: \"{V}\"\nlet a = {{ 'n num `title: {{{U}` }};\nres / on get -> <a>;\n",
    "/* {U} */ let a = b;\n",
    "let s = \"{U}\"; /* {V} */ let a = {{ 'p s, 'q zz }};\n",
    "let s = \"{U}\";\nres / on get -> <status=99, {{}}>;\n",
    "# description: \"{U}\"\nlet a = num;\nres a on get -> {{}};\n",
    "let f x = x; /* {U} */ res / on get -> <f \"{V}\" 1>;\n",
    "use \"nofile{U}.oal\";\nlet a = num;\n",
    "let a = \"{U}\" `title: \"{V}\"`; use \"missing.oal\" as m;\n",
    "# title: \"{U}\"\nlet a = {{}} & \"{V}\";\nres / on get -> <a>;\n",
    "let a = {{ 'n num }} `examples: {{ e: {{ value: [{U} }} }}`;\nres / on get -> <a>;\n",
    "res /x{{ 'id num }} on get `summary: \"{U}` -> {{}};\n",
    "res /x on get : {{ 'q str `description: [{U}` }} -> {{}};\n",
    "let r = rec x {{ 'c [x] `title: {{{U}` }};\nres / on get -> <r>;\n",
    "let @n = {{ 'c str }} `title: \"{U}\"`;\nlet @n = {{ 'd str }} `title: [{V}`;\nres / on get -> <n>;\n",
]


def diagnostic_family():
    out = []
    for t in DIAG_TEMPLATES:
        for u in UNI:
            for v in ("", "€", "\U0001F600"):
                out.append(t.format(U=u, V=v))
    return list(dict.fromkeys(out))


LEX_FAMILIES = ["words", "slash", "quote", "punct", "blank", "key"]


def lexer_reference(chk, tier):
    """(S)+(O) Lex.tla: the reference lexer (maximal munch over the patterns of lexer.rs as data) on every text of up to 4/5
    characters over six sub-alphabets; TLC checks the reference's own properties (Tiles, Genuine, Maximal, ErrorsJustified) and
    prints the reference tokenisation of every text; every text goes through the real lexer.  The real observations are
    judged by the Tiling monitor like all others (the property); kinds and spans are compared with the reference
    (disagreement = model drift: the property does not say which kind a token has)."""
    import concurrent.futures as cf
    cfgs = ["Lex_%s_%s.cfg" % (f, tier) for f in LEX_FAMILIES]
    with cf.ThreadPoolExecutor(max_workers=3) as ex:
        results = list(ex.map(lambda c: run_tlc("LexMC", c, workers=5, timeout=3000, java_opts=["-Xss512m"], xmx="6g"), cfgs))
    cases = []
    for c, r in zip(cfgs, results):
        chk.add_tlc(r)
        if not r.ok:
            chk.violation("C11|design|lexer", "Lex.tla: the reference lexer violates one of its own properties (%s)" % c, {"tlc": (r.violation or "")[:2000]})
        cases += r.cases
    texts = ["".join(c["text"]) for c in cases]
    real = run_oalv_parallel("lex", [{"text": t} for t in texts], jobs=12)
    agree = 0
    for c, t, o in zip(cases, texts, real):
        if o.get("outcome") == "skipped":
            continue
        if o.get("outcome") != "ok":
            chk.violation("C11|lex-%s" % o.get("outcome"), "the lexer %s on %r" % (o.get("outcome"), t), {"text": t, "obs": o})
            continue
        # byte offsets -> character indices (1-based, end exclusive) as in the specification
        pos = {b: i + 1 for i, b in enumerate(o["boundaries"])}
        got = sorted([(pos.get(tk[1]), pos.get(tk[2]), tk[0]) for tk in o["tokens"]] + [(pos.get(e[0]), pos.get(e[1]), "") for e in o["errors"]])
        want = sorted((x["from"], x["to"], x["kind"]) for x in c["toks"])
        if got == want:
            agree += 1
            chk.cov["traces_validated_against_impl"] += 1
        else:
            k = next((i for i, (a, b) in enumerate(zip(got, want)) if a != b), min(len(got), len(want)))
            chk.drift("C11|lexer-reference", "Lex.tla and the real lexer tokenise %r differently (real %s, reference %s)" % (t, got[k:k + 2], want[k:k + 2]))
    chk.cov["evaluations"] += len(texts)
    chk.notes["lexer_reference"] = {"texts": len(texts), "same_tokenisation": agree}
    return texts


def run(tier):
    chk = Check("C11", tier)
    rng = random.Random(common.seed())
    common.build_harness()
    lt = lexer_reference(chk, tier)
    if tier == "quick" and len(lt) > 6000:
        lt = random.Random(common.seed()).sample(lt, 6000)
    judge(chk, lt, "lexer-families")
    base = [t for _, t in corpus.texts()]
    judge(chk, base, "corpus")
    n = 500 if tier == "quick" else 12000
    muts = list(dict.fromkeys(mutate_text(rng, rng.choice(base)) for _ in range(n)))
    small = [t for t in base if len(t) < 400]
    muts += list(dict.fromkeys(mutate_text(rng, rng.choice(small)) for _ in range(n)))
    judge(chk, muts, "mutants")
    rnd = list(dict.fromkeys(random_text(rng) for _ in range(600 if tier == "quick" else 20000)))
    judge(chk, rnd, "unicode")
    import lexemes
    fam = lexemes.family_texts(rng, 400 if tier == "quick" else 8000)
    judge(chk, fam, "rendered-token-sequences")
    judge(chk, diagnostic_family(), "diagnostic-programs")
    kinds = chk.notes.get("span_kinds", {}).get("diagnostic-programs", {})
    if kinds.get("eval-error", 0) < 40 or kinds.get("compile-error", 0) < 40:
        raise common.ToolError("the directed diagnostic programs no longer produce compile/eval diagnostics with spans: %s" % kinds)
    chk.cov["rule"] = ("texts: repository corpus, character-level mutants (insert/delete/replace/duplicate over an alphabet with 2-4 byte characters, "
                       "CR LF, NUL, BOM), arbitrary strings over that alphabet, rendered token sequences; each text is lexed, parsed and compiled by the "
                       "real code and the observation judged by TLC (Tiling.tla); non-trivial = tree of more than 8 nodes or at least one lexical error; "
                       "texts are de-duplicated")
    chk.assumptions = [
        "the lexer has a reference specification (Lex.tla: maximal munch over the patterns as data, error = the characters consumed before the automaton got stuck) with exhaustive small-scope conformance; the logos DFA itself is not transcribed; the design-level Lossless/Hull invariants of the parser engine are model-checked in C12",
        "token text check: the value stored in a token must be the source slice of its span (modulo the quotes/prefix the lexer strips)",
        "an end-of-input span may end one position past the end of the text; every other span end must be a character boundary inside the text",
    ]
    return chk.finish()


def replay(path):
    d = json.load(open(path))
    c = d["case"]
    common.build_harness()
    p = common.run_oalv("parse", [{"text": c["text"]}])[0]
    print("text:", repr(c["text"]))
    print("tokens:", p.get("tokens"))
    print("lexical errors:", p.get("lex_errors"), "errors:", p.get("errors"))
    print("verdict recorded:", c.get("verdict"))
    return 0
