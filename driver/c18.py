"""C18 — rename is meaning-preserving and never crashes the server.

(S) TLC: ResolveMC.tla - the binding relation of the Scopes family (equal to the steps of resolve(),
    C08) determines the expected edit set of a rename: the binder's own identifier plus the name
    token of every use bound to it in any loaded module (for an import qualifier: the qualifier in
    the `use` statement plus the qualifier token of every variable of that module qualified by it).
(O) for every accepted member the real oal-lsp is asked prepareRename at every UTF-16 position of
    every loaded module; for every offered range, rename with a fresh name is requested: the server
    must stay alive; the edits must not overlap, each must cover exactly one occurrence of the old
    name, and the edit set must equal the specification's; the edits are applied client side
    (UTF-16) and both versions are compiled by the real compiler: both accepted, same document.
"""
import concurrent.futures as cf
import json
import random

import common
import lsp
import lspq
from c17 import accepted_groups, pick_groups
from common import Check, run_oalv

FRESH = "zz9fresh"


def apply_edits(model, ws, changes):
    """client-side application of a WorkspaceEdit (UTF-16 ranges) -> {module: new text}"""
    out = dict(model.text)
    for uri, edits in (changes or {}).items():
        m = ws.mod_of(uri)
        text = out[m]
        spans = []
        for e in edits:
            s = lspq.offset_of(model.text[m], e["range"]["start"]["line"], e["range"]["start"]["character"])
            t = lspq.offset_of(model.text[m], e["range"]["end"]["line"], e["range"]["end"]["character"])
            spans.append((s, t, e["newText"]))
        spans.sort()
        raw = model.raw[m]
        res = b""
        cur = 0
        for s, t, new in spans:
            res += raw[cur:s] + new.encode("utf-8")
            cur = t
        res += raw[cur:]
        out[m] = res.decode("utf-8", "replace")
    return out


def expected_edits(model, m, tok):
    """{module: set of (start, end)} byte spans to be replaced, or None when nothing is renamed"""
    kind = tok[2]
    if kind == "use-qual":
        out = {m: {(tok[0], tok[1])}}
        for t in model.tokens[m]:
            if t[2] == "var-qual" and t[3]["q"] == tok[3]["q"]:
                out[m].add((t[0], t[1]))
        return out
    b = model.binder_of_token(m, tok)
    if b is None or b["kind"] in ("none", "internal"):
        return {}
    mp = model.r["maps"][b["m"]]
    ent = mp[lspq.pkey(b["p"])]
    bsp = ent["name"] if b["kind"] in ("rec", "decl") else ent["span"]
    out = {b["m"]: {(bsp[0], bsp[1])}}
    for um, ut in model.uses_of(b):
        out.setdefault(um, set()).add((ut[0], ut[1]))
    return out


def check_program(tag, group, style):
    out = {"violations": [], "renames": 0, "offered": 0, "dead": None, "compile_cases": []}
    model = lspq.Model(group, style)
    ws = lspq.Ws(tag, model)
    s = lsp.Server(ws.dir)
    try:
        for m in model.loaded:
            text = model.text[m]
            done = set()
            for (ln, ch) in lspq.all_positions(text):
                off = lspq.offset_of(text, ln, ch)
                pr = s.prepare_rename(ws.uri(m), ln, ch)
                if isinstance(pr, dict) and ("__dead__" in pr or "__timeout__" in pr):
                    out["dead"] = {"module": m, "position": [ln, ch], "request": "prepareRename", "how": pr}
                    return out
                tok = model.token_at(m, off)
                offered = isinstance(pr, dict) and "start" in pr
                should = tok is not None and tok[2] in ("decl-name", "var-name", "var-qual", "use-qual")
                if offered != should:
                    out["violations"].append(("C18|prepare|%s" % ("spurious" if offered else "missing"),
                                              "prepareRename at %s:%d:%d (token %s) answers %s" % (m, ln, ch, tok[2] if tok else None, json.dumps(pr)),
                                              {"module": m, "position": [ln, ch], "real": pr}))
                    continue
                if not offered:
                    continue
                out["offered"] += 1
                key = (tok[0], tok[1])
                if key in done:
                    continue
                done.add(key)
                # the offered range is one occurrence of the name to be renamed
                want_tok = tok if tok[2] != "var-qual" else [t for t in model.tokens[m] if t[2] == "var-name" and t[3]["path"] == tok[3]["path"]][0]
                want_rng = lspq.rng16(model.raw[m], want_tok[0], want_tok[1])
                if pr != want_rng:
                    out["violations"].append(("C18|prepare|range", "prepareRename at %s:%d:%d offers %s, the identifier is at %s" % (m, ln, ch, json.dumps(pr), json.dumps(want_rng)),
                                              {"module": m, "position": [ln, ch], "real": pr, "spec": want_rng}))
                rn = s.rename(ws.uri(m), ln, ch, FRESH)
                out["renames"] += 1
                if isinstance(rn, dict) and ("__dead__" in rn or "__timeout__" in rn):
                    b = model.binder_of_token(m, tok)
                    out["dead"] = {"module": m, "position": [ln, ch], "request": "rename", "token": tok[2],
                                   "binder": b["kind"] if b else None, "how": rn}
                    return out
                changes = (rn or {}).get("changes") or {}
                got = {}
                overlap = False
                for uri, edits in changes.items():
                    um = ws.mod_of(uri)
                    spans = []
                    for e in edits:
                        a = lspq.offset_of(model.text[um], e["range"]["start"]["line"], e["range"]["start"]["character"])
                        z = lspq.offset_of(model.text[um], e["range"]["end"]["line"], e["range"]["end"]["character"])
                        spans.append((a, z))
                    spans.sort()
                    for x, y in zip(spans, spans[1:]):
                        if y[0] < x[1]:
                            overlap = True
                    got[um] = set(spans)
                want = expected_edits(model, m, tok)
                if overlap:
                    out["violations"].append(("C18|edits|overlap", "rename at %s:%d:%d returns overlapping edits %s" % (m, ln, ch, json.dumps(changes)[:300]),
                                              {"module": m, "position": [ln, ch], "real": changes}))
                elif got != want:
                    b = model.binder_of_token(m, tok)
                    miss = {k: sorted(v - got.get(k, set())) for k, v in want.items() if v - got.get(k, set())}
                    extra = {k: sorted(v - want.get(k, set())) for k, v in got.items() if v - want.get(k, set())}
                    kind = "missing" if miss else "spurious"
                    out["violations"].append(("C18|edits|%s|%s" % (kind, tok[2] if tok[2] == "use-qual" else (b["kind"] if b else "?")),
                                              "rename at %s:%d:%d (%s): edit spans %s, the binding relation gives %s" % (
                                                  m, ln, ch, tok[2], {k: sorted(v) for k, v in got.items()}, {k: sorted(v) for k, v in want.items()}),
                                              {"module": m, "position": [ln, ch], "missing": miss, "extra": extra}))
                # meaning preservation: compile the edited sources
                newtexts = apply_edits(model, ws, changes)
                out["compile_cases"].append(({"module": m, "position": [ln, ch], "token": tok[2]}, newtexts))
        out["alive"] = s.alive()
    finally:
        s.stop()
        ws.drop()
    out["files"] = model.text
    out["relpath"] = model.relpath
    out["main"] = model.prog["main"]
    return out


def run(tier):
    chk = Check("C18", tier)
    rng = random.Random(common.seed())
    common.build_harness()
    common.build_bins()
    groups = accepted_groups(tier, chk)
    n_all = len(groups)
    nrun = 36 if tier == "quick" else 400
    # members whose contested name is a reference name are left to C17: renaming an @reference renames a component (the
    # statement's own exception), which this check's document comparison does not model
    groups = [g for g in groups if not any(st["k"] == "decl" and st["s"].startswith("@") for stmts in g["prog"]["mods"].values() for st in stmts)]
    groups = pick_groups(groups, nrun, rng)
    jobs = [("q%d" % i, g, (i + 1 + common.seed()) % 4) for i, g in enumerate(groups)]
    with cf.ThreadPoolExecutor(max_workers=8) as ex:
        results = list(ex.map(lambda j: check_program(*j), jobs))
    B = "file:///w/"
    comp_cases = []
    comp_meta = []
    for (tag, g, style), res in zip(jobs, results):
        if res["dead"] is not None:
            d = res["dead"]
            key = "C18|server-died|%s|binder=%s" % (d.get("request"), d.get("binder"))
            chk.violation(key, "the language server exits on %s at %s:%s (token %s, bound to a %s)" % (
                d.get("request"), d["module"], d["position"], d.get("token"), d.get("binder")),
                {"files": lspq.Model(g, style).text, "dead": d})
            continue
        for key, what, payload in res["violations"][:6]:
            payload["files"] = res["files"]
            chk.violation(key, what, payload)
        chk.cov["evaluations"] += res["renames"]
        rel = res["relpath"]
        orig = {"main": B + rel[res["main"]], "files": {B + rel[m]: t for m, t in res["files"].items()}, "want": {"doc": True}}
        comp_cases.append(orig)
        comp_meta.append(("orig", res, None))
        for info, newtexts in res["compile_cases"]:
            comp_cases.append({"main": B + rel[res["main"]], "files": {B + rel[m]: t for m, t in newtexts.items()}, "want": {"doc": True}})
            comp_meta.append(("new", res, info))
    obs = common.run_oalv_parallel("compile", comp_cases, jobs=8)
    cur = None
    ok_pairs = 0
    for (kind, res, info), case, o in zip(comp_meta, comp_cases, obs):
        if kind == "orig":
            cur = o
            continue
        good = lambda x: x.get("outcome") == "ok" and x.get("load", {}).get("result") == "ok" and x.get("eval", {}).get("result") == "ok"
        if not good(cur):
            continue
        if not good(o):
            chk.violation("C18|renamed-program-rejected", "after rename at %s the edited sources are no longer accepted: %s" % (
                json.dumps(info), json.dumps(o.get("load"))[:200]), {"files": res["files"], "edited": case["files"], "at": info})
        elif o.get("doc") != cur.get("doc"):
            chk.violation("C18|document-changed", "after rename at %s the edited sources compile to a different document" % json.dumps(info),
                          {"files": res["files"], "edited": case["files"], "at": info})
        else:
            ok_pairs += 1
    chk.cov["traces_validated_against_impl"] = ok_pairs
    chk.cov["distinct_nontrivial"] = len(groups)
    chk.notes["accepted_members"] = n_all
    chk.notes["programs"] = len(groups)
    chk.notes["offered_positions"] = sum(r["offered"] for r in results)
    chk.cov["exhaustive"] = False
    chk.cov["rule"] = ("accepted members of the Scopes family (seeded sample); prepareRename at every UTF-16 position of every loaded module; one rename per "
                       "distinct identifier token offered (declarations, uses of declarations / parameters / rec binders / imported and qualified names, "
                       "import qualifiers), each followed by compilation of the edited sources; evaluations = rename requests")
    if results and results[0].get("files"):
        chk.sample({"program": results[0]["files"], "renames": results[0]["renames"]})
    chk.assumptions = [
        "the fresh name is a value identifier that occurs nowhere in the workspace; @reference names are not part of this family",
        "programs are accepted by the real compiler",
        "the expected edit set is derived from the specification's binding relation through the renderer's source map",
    ]
    return chk.finish()


def replay(path):
    d = json.load(open(path))
    print(json.dumps(d["case"], indent=1)[:3000])
    return 0
