"""./check <property id> [--tier quick|thorough] [--replay FILE]   |   ./check --setup"""
import importlib
import os
import sys
import traceback

sys.path.insert(0, os.path.dirname(os.path.abspath(__file__)))
import common  # noqa: E402


def setup():
    import glob
    common.build_harness()
    common.build_bins()
    bad = 0
    for f in sorted(glob.glob(os.path.join(common.SPEC, "*.tla")) + glob.glob(os.path.join(common.SPEC, "trace", "*.tla"))):
        if os.path.dirname(f) != common.SPEC:
            continue
        ok, out = common.sany(os.path.basename(f)[:-4])
        print("sany %-24s %s" % (os.path.basename(f), "ok" if ok else "FAILED"))
        if not ok:
            print(out[-2000:])
            bad += 1
    return 2 if bad else 0


def main(argv):
    if len(argv) >= 2 and argv[1] == "--setup":
        return setup()
    if len(argv) < 2:
        print(__doc__)
        return 2
    pid = argv[1]
    tier = os.environ.get("VERIF_TIER", "quick")
    replay = None
    i = 2
    while i < len(argv):
        if argv[i] == "--tier":
            tier = argv[i + 1]
            i += 2
        elif argv[i] == "--replay":
            replay = argv[i + 1]
            i += 2
        else:
            print("unknown argument", argv[i])
            return 2
    if tier not in ("quick", "thorough"):
        tier = "quick"
    try:
        mod = importlib.import_module(pid.lower())
    except ImportError:
        traceback.print_exc()
        print("no check for", pid)
        return 2
    try:
        if replay:
            return mod.replay(replay)
        return mod.run(tier)
    except common.ToolError as e:
        print("TOOL-ERROR property=%s: %s" % (pid, e))
        return 2
    except Exception:
        traceback.print_exc()
        print("TOOL-ERROR property=%s: internal error of the check" % pid)
        return 2
    finally:
        common.cleanup()


if __name__ == "__main__":
    # deeply nested syntax trees (nesting depth 200+) are exchanged as nested JSON
    import threading
    sys.setrecursionlimit(200000)
    threading.stack_size(1024 * 1024 * 1024)
    box = []
    t = threading.Thread(target=lambda: box.append(main(sys.argv)))
    t.start()
    t.join()
    sys.exit(box[0] if box else 2)
