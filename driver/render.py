"""Renderer: abstract syntax (JSON shape of spec/Ast.tla) -> Oxlip text with a source map.

The source map gives, for every node path (statement index, child indices..., 1-based as in
TLA+), the byte span of the node's own tokens and, for identifiers, of the name / qualifier.
Parentheses are inserted where the grammar needs them (and are not part of the abstract
syntax); `extra_parens` (a set of paths) adds meaning-preserving parentheses, `style` varies
trivia (comments, line breaks, multi-byte characters in comments)."""

LEVEL = {"rec": 0, "rel": 0, "xfer": 1, "prop": 0, "app": 6, "un": 6.5}
OPLEVEL = {"|": 2, "~": 3, "&": 4, "::": 5}


def level(n):
    if n["k"] == "op":
        return OPLEVEL[n["s"]]
    return LEVEL.get(n["k"], 7)


# only shapes the generated lexer takes as ONE comment ending where it appears to: its pattern /\*([^*]|\*[^/])*\*/ consumes a star
# together with the character after it, so a comment whose closing star is the second of such a pair (`/***/`, `/* x **/`) runs on
# to a later `*/` (the deviation recorded in Lex.tla); those are not comments of the language as implemented and are left out
BLOCK_COMMENTS = ["/**/", "/****/", "/* **bold** text */", "/*** banner ***/", "/* a ** b */", "/*/ */", "/* / * / */",
                  "/* line one\n * line two\n ** three\n */", "/* one *//* two */", "/* *a */", "/* ***/", "/*** é€ ** \U0001F600 */", "/* // not a line comment */"]


class Out:
    def __init__(self, style):
        self.parts = []
        self.n = 0            # bytes so far
        self.map = {}
        self.style = style
        self.tok = 0

    def raw(self, s):
        self.parts.append(s)
        self.n += len(s.encode("utf-8"))

    def sep(self):
        """trivia between two tokens"""
        self.tok += 1
        st = self.style
        if st == 0:
            self.raw(" ")
        elif st == 1:
            self.raw("  " if self.tok % 3 else " /* é€ */ ")
        elif st == 2:
            self.raw("\n  " if self.tok % 4 == 0 else " ")
        elif st == 4:
            # block comments in every shape the token pattern distinguishes: empty, stars at either end and inside,
            # slashes and stars mixed, several lines, a comment directly after another
            c = BLOCK_COMMENTS[(self.tok // 2) % len(BLOCK_COMMENTS)]
            self.raw(" " if self.tok % 2 else " %s " % c)
        else:
            self.raw(" // \U0001F600 c\r\n" if self.tok % 5 == 0 else ("\t" if self.tok % 2 else " "))

    def token(self, s):
        if self.parts and not self.parts[-1].endswith(("\n", " ", "\t")):
            self.sep()
        start = self.n
        self.raw(s)
        return (start, self.n)


def pkey(path):
    return ".".join(str(i) for i in path)


def ann_value(e):
    if e["ty"] == "s":
        return '"%s"' % e["val"]
    if e["ty"] == "l":
        return "[%s]" % ", ".join(e["val"].split(","))
    return e["val"]


def emit(o, n, path, need, extra):
    """renders node n required at precedence `need`; returns span of the node's own tokens.
    Annotations written on the node attach to its terminal: line annotations before it, one inline
    annotation after it; a node that is not a term by itself is parenthesised first."""
    anns = n.get("ann") or []
    line = [e for e in anns if e["w"] == "line"]
    inline = [e for e in anns if e["w"] == "inline"]
    wrap = level(n) < (7 if anns else need)
    nwrap = (1 if wrap else 0) + (1 if pkey(path) in extra else 0)
    for e in line:
        if o.parts and not o.parts[-1].endswith("\n"):
            o.raw("\n")
        o.raw("# %s: %s\n" % (e["key"], ann_value(e)))
    for _ in range(nwrap):
        o.token("(")
    sp = emit_bare(o, n, path, extra)
    for _ in range(nwrap):
        o.token(")")
    if inline:
        o.token("`%s`" % ", ".join("%s: %s" % (e["key"], ann_value(e)) for e in inline))
    return sp


def emit_bare(o, n, path, extra):
    k = n["k"]
    a = n["a"]
    ent = {}
    o.map[pkey(path)] = ent
    start = None

    def tk(s):
        nonlocal start
        sp = o.token(s)
        if start is None:
            start = sp[0]
        return sp

    def child(i, need):
        nonlocal start
        sp = emit(o, a[i], path + [i + 1], need, extra)
        if start is None:
            start = sp[0]
        return sp

    def inlist(nd, kinds=("rel", "xfer")):
        """precedence needed inside a comma-separated list: relations and transfers contain commas of their own"""
        return 1.5 if nd["k"] in kinds else 0

    if k == "prim":
        tk(n["s"])
    elif k == "lit":
        tk('"%s"' % n["q"] if n["s"] == "str" else n["q"])
    elif k == "obj":
        tk("{")
        for i in range(len(a)):
            if i:
                tk(",")
            child(i, inlist(a[i]))
        tk("}")
    elif k == "prop":
        tk("'" + n["s"])
        if n["n"]:
            tk("!" if n["n"] == 1 else "?")       # the mark is a token of its own
        child(0, inlist(a[0]))
    elif k == "arr":
        tk("[")
        child(0, 0)
        tk("]")
    elif k == "op":
        for i in range(len(a)):
            if i:
                tk(n["s"])
            child(i, OPLEVEL[n["s"]] + 0.5)
    elif k == "un":
        child(0, 7)
        tk(n["s"])
    elif k == "cnt":
        tk("<")
        first = True
        for i in range(len(a)):
            if not first:
                tk(",")
            first = False
            if i < n["n"]:
                m = a[i]
                ment = {}
                o.map[pkey(path + [i + 1])] = ment
                ms = o.token(m["s"])
                o.token("=")
                sp = emit(o, m["a"][0], path + [i + 1, 1], inlist(m["a"][0]), extra)
                ment["span"] = [ms[0], sp[1]]
            else:
                child(i, inlist(a[i]))
        tk(">")
    elif k == "uri":
        nseg = len(a) - (1 if n["n"] == 1 else 0)
        for i in range(nseg):
            s = a[i]
            if s["k"] == "seg":
                sp = tk("/" + s["s"])
                o.map[pkey(path + [i + 1])] = {"span": [sp[0], sp[1]]}
            else:
                s0 = tk("/")
                o.token("{")
                emit(o, s["a"][0], path + [i + 1, 1], 0, extra)
                e0 = o.token("}")
                o.map[pkey(path + [i + 1])] = {"span": [s0[0], e0[1]]}
        if n["n"] == 1:
            tk("?")
            child(len(a) - 1, 7)
    elif k == "rel":
        child(0, 7)
        tk("on")
        for i in range(1, len(a)):
            if i > 1:
                tk(",")
            child(i, inlist(a[i], ("rel",)))
    elif k == "xfer":
        ms = n["s"].split(",")
        for i, m in enumerate(ms):
            if i:
                tk(",")
            tk(m)
        idx = 0
        if n["n"] & 1:
            child(idx, 7)
            idx += 1
        if n["n"] & 2:
            tk(":")
            child(idx, 7)
            idx += 1
        tk("->")
        child(idx, 5)
    elif k == "var":
        if n["q"]:
            q = tk(n["q"])
            ent["qual"] = [q[0], q[1]]
            o.raw(".")
            st = o.n
            o.raw(n["s"])
            ent["name"] = [st, o.n]
        else:
            sp = tk(n["s"])
            ent["name"] = [sp[0], sp[1]]
    elif k == "app":
        child(0, 7)
        for i in range(1, len(a)):
            # arguments are terminals; a URI template would swallow a following URI argument
            child(i, 8 if a[i]["k"] == "uri" else 7)
    elif k == "rec":
        tk("rec")
        b = o.token(n["s"])
        ent["name"] = [b[0], b[1]]
        child(0, 0)
    elif k == "bind":
        sp = tk(n["s"])
        ent["name"] = [sp[0], sp[1]]
    else:
        raise ValueError("cannot render node kind %r" % k)
    ent["span"] = [start, o.n]
    return (start, o.n)


def render_module(stmts, style=0, extra_parens=(), spell=None):
    """returns (text, map).  map: path key -> {"span", "name"?, "qual"?}; spell(name) gives the path an import is written with"""
    o = Out(style)
    extra = set(extra_parens)
    for si, st in enumerate(stmts):
        path = [si + 1]
        ent = {}
        if o.parts:
            o.raw("\r\n" if style == 3 else "\n")
        if st["k"] == "use":
            s0 = o.token("use")
            o.token('"%s"' % st.get("spelling", spell(st["s"]) if spell else st["s"] + ".oal"))
            if st["q"]:
                o.token("as")
                q = o.token(st["q"])
                ent["qual"] = [q[0], q[1]]
            e0 = o.token(";")
            ent["span"] = [s0[0], e0[1]]
        elif st["k"] == "decl":
            for e in (st.get("ann") or []):
                o.raw("# %s: %s\n" % (e["key"], ann_value(e)))
            s0 = o.token("let")
            nm = o.token(st["s"])
            ent["name"] = [nm[0], nm[1]]
            for i in range(st["n"]):
                b = o.token(st["a"][i]["s"])
                o.map[pkey(path + [i + 1])] = {"span": [b[0], b[1]], "name": [b[0], b[1]]}
            o.token("=")
            emit(o, st["a"][st["n"]], path + [st["n"] + 1], 0, extra)
            e0 = o.token(";")
            ent["span"] = [s0[0], e0[1]]
        elif st["k"] == "res":
            s0 = o.token("res")
            emit(o, st["a"][0], path + [1], 0, extra)
            e0 = o.token(";")
            ent["span"] = [s0[0], e0[1]]
        else:
            raise ValueError(st["k"])
        o.map[pkey(path)] = ent
    o.raw("\n")
    return "".join(o.parts), o.map


def render_program(prog, style=0, extra_parens=None, base="file:///w/", layout=None):
    """prog: {"main": name, "mods": {name: [stmts]}} -> {"main": url, "files": {url: text}, "maps": {name: map}, "urls": {name: url}}
    layout: module name -> path stem below the base (default: the name); imports are written relative to the importing module"""
    import posixpath
    files = {}
    maps = {}
    stem = {name: (layout or {}).get(name, name) for name in prog["mods"]}
    for name, stmts in prog["mods"].items():
        here = posixpath.dirname(stem[name])

        def spell(target, here=here):
            return posixpath.relpath(stem.get(target, target) + ".oal", here or ".")
        text, mp = render_module(stmts, style, (extra_parens or {}).get(name, ()), spell if layout else None)
        files[base + stem[name] + ".oal"] = text
        maps[name] = mp
    return {"main": base + stem[prog["main"]] + ".oal", "files": files, "maps": maps, "urls": {n: base + stem[n] + ".oal" for n in stem}}
