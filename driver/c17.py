"""C17 — go-to-definition and find-references mirror the compiler's binding relation.

(S) TLC: ResolveMC.tla - the binding relation RefTable of the Scopes family (checked equal to the
    steps of resolve() in C08), RefsOf (find-references as the inverse image of a binder over all
    loaded modules) and the invariant Inverse (every reference returned for a binder resolves back
    to it).
(O) for every accepted member, rendered with multi-byte comments and CRLF in some styles, the real
    oal-lsp is asked definition and references at EVERY UTF-16 position of every loaded module
    (including positions past the end of each line); the answers must be the locations the
    specification's binding relation gives through the renderer's source map: definition = the
    binding construct of the variable under the cursor (in whichever module), references = exactly
    the uses bound to the identifier's binder across all modules, empty everywhere else; each
    returned reference, asked for its definition, must lead back to the binder (inverse, on the
    real server).
"""
import concurrent.futures as cf
import json
import random

import common
import lsp
import lspq
from c08 import group_cases
from common import Check, run_tlc, run_oalv_parallel


def check_program(tag, group, style):
    out = {"violations": [], "requests": 0, "positions": 0, "dead": None}
    model = lspq.Model(group, style)
    ws = lspq.Ws(tag, model)
    s = lsp.Server(ws.dir)
    try:
        for m in model.loaded:
            text = model.text[m]
            for (ln, ch) in lspq.all_positions(text):
                off = lspq.offset_of(text, ln, ch)
                out["positions"] += 1
                d = s.definition(ws.uri(m), ln, ch)
                r = s.references(ws.uri(m), ln, ch)
                out["requests"] += 2
                if isinstance(d, dict) and ("__dead__" in d or "__timeout__" in d) or isinstance(r, dict) and ("__dead__" in r or "__timeout__" in r):
                    out["dead"] = {"module": m, "position": [ln, ch], "how": d if isinstance(d, dict) else r}
                    return out
                # ---- definition
                v = model.var_at(m, off)
                if v is not None and v[3]["b"] is not None and v[3]["b"]["kind"] not in ("internal", "none"):
                    want_d = model.binder_location(v[3]["b"], ws)
                else:
                    want_d = []
                if lspq.norm_loc(d) != lspq.norm_loc(want_d):
                    kind = "missing" if want_d and not d else ("spurious" if d and not want_d else "wrong-target")
                    out["violations"].append(("C17|definition|%s" % kind,
                                              "definition at %s:%d:%d (byte %d) is %s, the binding relation gives %s" % (m, ln, ch, off, json.dumps(d), json.dumps(want_d)),
                                              {"module": m, "position": [ln, ch], "real": d, "spec": want_d}))
                # ---- references
                t = model.token_at(m, off)
                b = model.binder_of_token(m, t) if t is not None else None
                if b is not None and b["kind"] != "none":
                    want_r = [{"uri": ws.uri(um), "range": lspq.rng16(model.raw[um], ut[0], ut[1])} for um, ut in model.uses_of(b)]
                else:
                    want_r = []
                got = sorted(lspq.norm_loc(x) for x in (r or []))
                want = sorted(lspq.norm_loc(x) for x in want_r)
                if got != want:
                    kind = "missing" if set(want) - set(got) else "spurious"
                    if len(got) != len(set(got)):
                        kind = "duplicated"
                    out["violations"].append(("C17|references|%s" % kind,
                                              "references at %s:%d:%d (byte %d, token %s) are %s, the binding relation gives %s" % (
                                                  m, ln, ch, off, t[2] if t else None, got, want),
                                              {"module": m, "position": [ln, ch], "real": r, "spec": want_r}))
                # ---- inverse on the real server: every returned reference goes back to the binder
                if t is not None and t[2] == "decl-name" and r:
                    for ref in r[:6]:
                        dd = s.definition(ref["uri"], ref["range"]["start"]["line"], ref["range"]["start"]["character"])
                        out["requests"] += 1
                        want_back = model.binder_location(b, ws)
                        if lspq.norm_loc(dd) != lspq.norm_loc(want_back):
                            out["violations"].append(("C17|inverse", "reference %s of the declaration at %s:%d:%d does not resolve back to it (definition answers %s)" % (
                                json.dumps(ref), m, ln, ch, json.dumps(dd)), {"module": m, "position": [ln, ch], "reference": ref, "definition": dd}))
        out["alive"] = s.alive()
    finally:
        s.stop()
        ws.drop()
    out["files"] = model.text
    return out


def shadowing(prog):
    """a rec binder that repeats the name of a parameter of its declaration, of an enclosing rec binder or of a declaration"""
    main = prog["mods"][prog["main"]]
    declared = {st["s"] for st in main if st["k"] == "decl"}

    def go(n, bound):
        if n["k"] == "rec":
            if n["s"] in bound or n["s"] in declared:
                return True
            bound = bound | {n["s"]}
        return any(go(c, bound) for c in n["a"])
    return any(go(st["a"][st["n"]], {b["s"] for b in st["a"][:st["n"]]}) for st in main if st["k"] == "decl")


def pick_groups(groups, nrun, rng):
    """a seeded sample that always keeps some members with shadowed binders and some with imports at the end"""
    if len(groups) <= nrun:
        return groups
    def qualifier_clash(prog):
        main = prog["mods"][prog["main"]]
        quals = {st["q"] for st in main if st["k"] == "use" and st["q"]}
        names = {st["s"] for st in main if st["k"] == "decl"} | {b["s"] for st in main if st["k"] == "decl" for b in st["a"][:st["n"]]}
        return bool(quals & names)
    clash = [g for g in groups if qualifier_clash(g["prog"])]
    sh = [g for g in groups if shadowing(g["prog"])]
    last = [g for g in groups if g["prog"]["mods"][g["prog"]["main"]][-1]["k"] == "use"]
    keep = rng.sample(sh, min(len(sh), nrun // 3)) + rng.sample(last, min(len(last), nrun // 6)) + rng.sample(clash, min(len(clash), nrun // 6))
    keep = list({id(g): g for g in keep}.values())
    ids = {id(g) for g in keep}
    rest = [g for g in groups if id(g) not in ids]
    return keep + rng.sample(rest, nrun - len(keep))


def accepted_groups(tier, chk):
    cfg = "Resolve_thorough.cfg"          # the whole Scopes family in both tiers; the tiers differ in how many members are queried
    r = run_tlc("ResolveMC", cfg, workers=8, timeout=1800)
    chk.add_tlc(r)
    if not r.ok:
        chk.violation("%s|design" % chk.pid, "ResolveMC.tla violates an invariant (OpMatchesRef / Inverse)", {"tlc": r.violation})
    groups = [g for g in group_cases(r.cases) if not any(g["mods"][m]["err"] for m in g["mods"])]
    groups.sort(key=lambda g: json.dumps(g["prog"], sort_keys=True))
    # accepted by the real compiler (the server answers from the modules of a successful load only)
    import render
    cases = []
    for g in groups:
        rp = render.render_program(g["prog"], style=0)
        cases.append({"main": rp["main"], "files": rp["files"], "want": {}})
    obs = run_oalv_parallel("compile", cases, jobs=8)
    return [g for g, o in zip(groups, obs) if o.get("outcome") == "ok" and o.get("load", {}).get("result") == "ok"]


def run(tier):
    chk = Check("C17", tier)
    rng = random.Random(common.seed())
    common.build_harness()
    common.build_bins()
    groups = accepted_groups(tier, chk)
    n_all = len(groups)
    nrun = 36 if tier == "quick" else 500
    groups = pick_groups(groups, nrun, rng)
    jobs = [("p%d" % i, g, (i + common.seed()) % 4) for i, g in enumerate(groups)]
    with cf.ThreadPoolExecutor(max_workers=8) as ex:
        results = list(ex.map(lambda j: check_program(*j), jobs))
    for (tag, g, style), res in zip(jobs, results):
        if res["dead"] is not None:
            chk.violation("C17|server-died", "the language server exits during a definition/references request: %s" % json.dumps(res["dead"])[:200],
                          {"files": lspq.Model(g, style).text, "how": res["dead"]})
            continue
        for key, what, payload in res["violations"][:5]:
            payload["files"] = res["files"]
            chk.violation(key, what, payload)
        if not res["violations"]:
            chk.cov["traces_validated_against_impl"] += 1
        chk.cov["evaluations"] += res["requests"]
    chk.cov["distinct_nontrivial"] = len(groups)
    chk.notes["accepted_members"] = n_all
    chk.notes["programs_queried"] = len(groups)
    chk.notes["positions"] = sum(r["positions"] for r in results)
    chk.cov["exhaustive"] = False
    chk.cov["rule"] = ("accepted members of the Scopes family (three modules, shadowing among rec binder / parameter / declaration / unqualified and qualified "
                       "import), a seeded sample of them; for each, definition and references at every UTF-16 position of every loaded module; a program is "
                       "non-trivial by construction (it has shadowed and cross-module uses); evaluations = requests sent")
    if results:
        chk.sample({"program": results[0].get("files"), "positions": results[0]["positions"], "requests": results[0]["requests"]})
    chk.assumptions = [
        "programs are accepted by the real compiler (the server answers from the modules of a successful load only)",
        "positions are UTF-16 code-unit offsets on character boundaries or beyond the end of the line",
        "the renderer's source map and the Python position arithmetic are trusted (the latter is independent of the server's conversion code, cf. C16)",
    ]
    return chk.finish()


def replay(path):
    d = json.load(open(path))
    c = d["case"]
    print(json.dumps(c, indent=1)[:3000])
    return 0
