"""Canonical form of emitted documents up to the generated names of implicit components: every
`hash-...` component is unfolded at its uses (a back edge of a recursive component becomes a
relative marker), explicit components keep their names."""
import json
import re

HASH = re.compile(r"^hash-[0-9a-f]{64}$")
PREF = "#/components/schemas/"


def canon(doc):
    if not isinstance(doc, dict):
        return doc
    comps = ((doc.get("components") or {}).get("schemas")) or {}

    def go(x, stack):
        if isinstance(x, dict):
            r = x.get("$ref")
            if isinstance(r, str) and r.startswith(PREF) and HASH.match(r[len(PREF):]):
                name = r[len(PREF):]
                if name in stack:
                    return {"$rec": len(stack) - stack.index(name)}
                if name not in comps:
                    return {"$dangling": True}
                return {"$unfold": go(comps[name], stack + [name])}
            return {k: go(v, stack) for k, v in x.items()}
        if isinstance(x, list):
            return [go(v, stack) for v in x]
        return x
    out = {k: go(v, []) for k, v in doc.items() if k != "components"}
    c = doc.get("components") or {}
    oc = {k: go(v, []) for k, v in c.items() if k != "schemas"}
    oc["schemas"] = {k: go(v, [k]) for k, v in comps.items() if not HASH.match(k)}
    out["components"] = oc
    return out


def same(a, b):
    return json.dumps(canon(a), sort_keys=True) == json.dumps(canon(b), sort_keys=True)


def first_difference(a, b, path=""):
    a, b = canon(a), canon(b)

    def go(x, y, p):
        if type(x) != type(y):
            return "%s: %s vs %s" % (p, json.dumps(x)[:80], json.dumps(y)[:80])
        if isinstance(x, dict):
            for k in sorted(set(x) | set(y)):
                if k not in x or k not in y:
                    return "%s/%s: only on one side" % (p, k)
                d = go(x[k], y[k], p + "/" + k)
                if d:
                    return d
            return None
        if isinstance(x, list):
            if len(x) != len(y):
                return "%s: lengths %d vs %d" % (p, len(x), len(y))
            for i, (u, v) in enumerate(zip(x, y)):
                d = go(u, v, "%s/%d" % (p, i))
                if d:
                    return d
            return None
        return None if x == y else "%s: %r vs %r" % (p, x, y)
    return go(a, b, path)
