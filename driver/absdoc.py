"""Canonical form of emitted documents up to the generated names of implicit components: every
`hash-...` component is unfolded at its uses (a back edge of a recursive component becomes a
relative marker), explicit components keep their names."""
import json
import os
import re

HASH = re.compile(r"^hash-[0-9a-f]{64}$")
PREF = "#/components/schemas/"


def canon(doc):
    if not isinstance(doc, dict):
        return doc
    comps = ((doc.get("components") or {}).get("schemas")) or {}

    def go(x, stack):
        if isinstance(x, dict):
            r = x.get("$ref")
            if isinstance(r, str) and r.startswith(PREF) and HASH.match(r[len(PREF):]):
                name = r[len(PREF):]
                if name in stack:
                    return {"$rec": len(stack) - stack.index(name)}
                if name not in comps:
                    return {"$dangling": True}
                return {"$unfold": go(comps[name], stack + [name])}
            return {k: go(v, stack) for k, v in x.items()}
        if isinstance(x, list):
            return [go(v, stack) for v in x]
        return x
    out = {k: go(v, []) for k, v in doc.items() if k != "components"}
    c = doc.get("components") or {}
    oc = {k: go(v, []) for k, v in c.items() if k != "schemas"}
    oc["schemas"] = {k: go(v, [k]) for k, v in comps.items() if not HASH.match(k)}
    out["components"] = oc
    return out


def same(a, b):
    return json.dumps(canon(a), sort_keys=True) == json.dumps(canon(b), sort_keys=True)


def first_difference(a, b, path=""):
    a, b = canon(a), canon(b)

    def go(x, y, p):
        if type(x) != type(y):
            return "%s: %s vs %s" % (p, json.dumps(x)[:80], json.dumps(y)[:80])
        if isinstance(x, dict):
            for k in sorted(set(x) | set(y)):
                if k not in x or k not in y:
                    return "%s/%s: only on one side" % (p, k)
                d = go(x[k], y[k], p + "/" + k)
                if d:
                    return d
            return None
        if isinstance(x, list):
            if len(x) != len(y):
                return "%s: lengths %d vs %d" % (p, len(x), len(y))
            for i, (u, v) in enumerate(zip(x, y)):
                d = go(u, v, "%s/%d" % (p, i))
                if d:
                    return d
            return None
        return None if x == y else "%s: %r vs %r" % (p, x, y)
    return go(a, b, path)


# ---------------------------------------------------------------------------------------------
# Abstraction of a real document into the shape of Den.tla's denotation (C02)

def sch(t, n="", fl=0, kids=(), an=()):
    return {"t": t, "n": n, "fl": fl, "kids": list(kids), "an": sorted(list(x) for x in an)}


NUMERIC = ("minimum", "maximum", "multipleOf", "minLength", "maxLength")
ANN_KEYS = ("description", "title", "minimum", "maximum", "multipleOf", "pattern", "enum", "format", "example", "minLength", "maxLength")


def canon_ann(key, val):
    """annotation values as canonical strings (numbers by value, lists comma separated)"""
    if isinstance(val, bool):
        return "true" if val else "false"
    if isinstance(val, (int, float)):
        return "%g" % float(val)
    if isinstance(val, list):
        return ",".join(str(x) for x in val)
    v = str(val)
    if key in NUMERIC or (key == "example" and _is_number(v)):
        try:
            return "%g" % float(v)
        except ValueError:
            return v
    return v


def _is_number(v):
    try:
        float(v)
        return True
    except ValueError:
        return False


def real_ann(s):
    out = []
    for k in ANN_KEYS:
        if k in s and s[k] not in (None, [], ""):
            if k == "format" and s[k] == "uri-reference":
                continue
            out.append((k, canon_ann(k, s[k])))
    return out


CUT = sch("...")


def abstract_schema(s, comps, K, d=0, hops=0):
    """real JSON schema -> uniform record; hash components are unfolded, explicit ones stay references;
    depth grows at property / item / operator-member edges, as in Den.tla"""
    if not isinstance(s, dict):
        return sch("BAD", repr(s)[:20])
    r = s.get("$ref")
    if isinstance(r, str) and r.startswith(PREF):
        name = r[len(PREF):]
        if HASH.match(name):
            if hops > 12 or name not in comps:
                return CUT if hops > 12 else sch("DANGLING", name[:12])
            return abstract_schema(comps[name], comps, K, d, hops + 1)
        return sch("ref", name)

    def edge(x):
        return CUT if d >= K else abstract_schema(x, comps, K, d + 1, 0)
    for key, t in (("allOf", "allOf"), ("anyOf", "anyOf"), ("oneOf", "oneOf")):
        if key in s:
            return sch(t, kids=[edge(x) for x in s[key]], an=real_ann(s))
    ty = s.get("type")
    if ty == "object":
        req = set(s.get("required") or [])
        # the harness hands the document over as JSON with sorted keys: properties are compared as a set
        # at the cut depth the type of a property is not looked at, so neither is the default it may lend the flag
        return sch("object", kids=[sch("prop", k, 1 if k in req and d < K else 0, [edge(v)]) for k, v in sorted((s.get("properties") or {}).items())], an=real_ann(s))
    if ty == "array":
        return sch("array", kids=[edge(s.get("items"))], an=real_ann(s))
    if ty == "string":
        if s.get("format") == "uri-reference":
            # the emitter gives every URI schema an example built from its template: not an annotation
            return sch("uri", an=[kv for kv in real_ann(s) if kv[0] != "example"])
        return sch("string", an=real_ann(s))
    if ty in ("number", "boolean", "integer"):
        return sch(ty, an=real_ann(s))
    return sch("UNKNOWN", json.dumps(s)[:40])


def abstract_doc(doc, K):
    comps = ((doc.get("components") or {}).get("schemas")) or {}
    items = []
    for key, item in (doc.get("paths") or {}).items():
        def params(ps, where):
            # parameters and headers are properties of an object in the source: their schemas sit one level deep
            return [(p.get("name"), bool(p.get("required", False)), abstract_schema(p.get("schema"), comps, K, 1), p.get("description") or "") for p in (ps or []) if p.get("in") == where]
        it = {"pattern": key, "path_params": params(item.get("parameters"), "path"), "query": params(item.get("parameters"), "query"), "ops": {}}
        for m in ("get", "put", "post", "patch", "delete", "options", "head"):
            op = item.get(m)
            if op is None:
                continue
            o = {"query": params(op.get("parameters"), "query"), "headers": params(op.get("parameters"), "header"), "request": None, "responses": [],
                 "summary": op.get("summary") or "", "description": op.get("description") or "", "operationId": op.get("operationId") or "",
                 "tags": list(op.get("tags") or []), "request_desc": ((op.get("requestBody") or {}).get("description") or ""), "resp_desc": {}}
            rb = op.get("requestBody")
            if rb:
                o["request"] = sorted((md, abstract_schema((c or {}).get("schema"), comps, K)) for md, c in (rb.get("content") or {}).items())
            for rk, resp in (op.get("responses") or {}).items():
                hdrs = [(hn, bool((h or {}).get("required", False)), abstract_schema((h or {}).get("schema"), comps, K, 1), (h or {}).get("description") or "")
                        for hn, h in (resp.get("headers") or {}).items()]
                o["resp_desc"][str(rk)] = resp.get("description") or ""
                cont = resp.get("content") or {}
                if cont:
                    for md, c in cont.items():
                        o["responses"].append((str(rk), md, abstract_schema((c or {}).get("schema"), comps, K), hdrs))
                else:
                    o["responses"].append((str(rk), None, None, hdrs))
            it["ops"][m] = o
        items.append(it)
    ecomps = {k: abstract_schema(v, comps, K) for k, v in comps.items() if not HASH.match(k)}
    return {"paths": items, "comps": ecomps}


MSG = int(os.environ.get("OALV_MSG", "200"))


def norm_sch(s):
    """Den.tla schema record (JSON) -> the same shape with @ stripped from reference names"""
    if s is None:
        return None
    n = s["n"][1:] if s["t"] == "ref" and s["n"].startswith("@") else s["n"]
    kids = [norm_sch(k) for k in s["kids"]]
    if s["t"] == "object":
        kids.sort(key=lambda k: k["n"])
    # annotations: a property inside an object has no place for its own description in the document; `required` is
    # reflected in the flag; a reference carries none
    an = [] if s["t"] in ("prop", "ref", "...") else [(e["key"], canon_ann(e["key"], e["val"])) for e in s.get("an", [])
                                                       if e["key"] != "required" and not (s["t"] == "uri" and e["key"] == "example")]
    # fl = 2: required by the default of the property's type, which counts inside an object schema only (see Den.tla)
    if s["t"] == "object":
        kids = [dict(k, fl=0) if k["t"] == "prop" and k["kids"][0]["t"] == "..." else
                dict(k, fl=1) if k["t"] == "prop" and k["fl"] == 2 else k for k in kids]
    return sch(s["t"], n, s["fl"], kids, an)


def prop_desc(p):
    for e in p.get("an", []):
        if e["key"] == "description":
            return e["val"]
    return ""


def expected_doc(case):
    """CASE record of DenMC.tla -> the shape of abstract_doc"""
    items = []
    for pi in case["paths"]:
        segs = pi["segs"]
        pattern = "".join("/" + (s["n"] if s["k"] == "lit" else "{%s}" % s["n"]) for s in segs) or "/"

        def props(ps):
            return [(p["n"], p["fl"] == 1, norm_sch(p["kids"][0]), prop_desc(p)) for p in ps]
        it = {"pattern": pattern, "path_params": [(s["n"], True, norm_sch(s["s"]), s.get("d", "")) for s in segs if s["k"] == "var"], "query": props(pi["query"]), "ops": {}}
        for x in pi["xfers"]:
            for m in x["methods"].split(","):
                o = {"query": props(x["params"]), "headers": [], "request": None, "responses": [],
                     "summary": x.get("summary", ""), "description": x.get("desc", ""), "operationId": x.get("id", ""),
                     "tags": [t for t in x.get("tags", "").split(",") if t], "request_desc": "", "request_desc_alt": {""}, "resp_desc": {}, "resp_desc_alt": {}}
                if x["domain"]:
                    dm = x["domain"][0]
                    o["request_desc"] = dm.get("desc", "")
                    o["request_desc_alt"] = {dm.get("sdesc", ""), dm.get("sdesc2", "")}
                    o["headers"] = props(dm["headers"])
                    if dm["body"]:
                        o["request"] = [(dm["media"] or "application/json", norm_sch(dm["body"][0]))]
                for c in x["ranges"]:
                    key = c["status"] or "default"
                    hd = props(c["headers"])
                    # the description of a response: that of the last content of the status that has one; a schema used
                    # directly as a content may lend its description (the evaluator does so for inline schemas, not for
                    # recursion points; for a bare reference it is the description reaching the reference): then either
                    if c.get("desc"):
                        o["resp_desc_alt"][key] = {c["desc"]}
                    elif c.get("sdesc") or c.get("sdesc2"):
                        o["resp_desc_alt"][key] = set(o["resp_desc_alt"].get(key, {""})) | {x for x in (c.get("sdesc"), c.get("sdesc2")) if x}
                    if c["body"]:
                        o["responses"].append((key, c["media"] or "application/json", norm_sch(c["body"][0]), hd))
                    else:
                        o["responses"].append((key, None, None, hd))
                it["ops"][m] = o
        items.append(it)
    comps = {c["name"].lstrip("@"): norm_sch(c["schema"]) for c in case["comps"]}
    return {"paths": items, "comps": comps}


def strip_an(x):
    if isinstance(x, dict):
        return {k: strip_an(v) for k, v in x.items() if k != "an"}
    if isinstance(x, (list, tuple)):
        return [strip_an(v) for v in x]
    return x


def ann_keys_differing(a, b):
    """keys of the annotations that differ between two abstract schemas of the same structure"""
    out = set()

    def go(x, y):
        if isinstance(x, dict) and isinstance(y, dict):
            ax, ay = dict(map(tuple, x.get("an", []))), dict(map(tuple, y.get("an", [])))
            for k in set(ax) | set(ay):
                if ax.get(k) != ay.get(k):
                    out.add(k)
            for u, v in zip(x.get("kids", []), y.get("kids", [])):
                go(u, v)
        elif isinstance(x, (list, tuple)) and isinstance(y, (list, tuple)):
            for u, v in zip(x, y):
                go(u, v)
    go(a, b)
    return sorted(out)


def differ(kind, a, b):
    """the kind of a difference between two abstract values: structural, or only in annotations"""
    if json.dumps(strip_an(a), sort_keys=True) == json.dumps(strip_an(b), sort_keys=True):
        return "annotation-differs:" + ",".join(ann_keys_differing(a, b) or ["description"])
    return kind


def compare_docs(exp, real):
    """list of (kind, description) - differences between the denotation and the emitted document"""
    out = []
    ep = {}
    for it in exp["paths"]:
        if it["pattern"] in ep:
            out.append(("two-resources-one-path", "the program declares two resources with the path %s" % it["pattern"]))
        ep.setdefault(it["pattern"], []).append(it)
    rp = {it["pattern"]: it for it in real["paths"]}
    for pat, its in ep.items():
        if pat not in rp:
            out.append(("path-missing", "path %s is not in the document" % pat))
            continue
        r = rp[pat]
        for e in its:
            tag = "" if len(its) == 1 else " (one of %d resources with this path)" % len(its)
            for fld in ("path_params", "query"):
                if json.dumps(e[fld], sort_keys=True) != json.dumps(r[fld], sort_keys=True):
                    out.append((differ("%s-differ" % fld.replace("_", "-"), e[fld], r[fld]), "%s %s: expected %s, document %s%s" % (pat, fld, json.dumps(e[fld])[:200], json.dumps(r[fld])[:200], tag)))
            for m, eo in e["ops"].items():
                ro = r["ops"].get(m)
                if ro is None:
                    out.append(("operation-missing", "%s %s is declared but not in the document%s" % (m, pat, tag)))
                    continue
                for fld in ("query", "headers", "request"):
                    if json.dumps(eo[fld], sort_keys=True) != json.dumps(ro[fld], sort_keys=True):
                        out.append((differ("%s-differ" % ("request-body" if fld == "request" else "operation-" + fld), eo[fld], ro[fld]),
                                    "%s %s %s: expected %s, document %s" % (m, pat, fld, json.dumps(eo[fld])[:MSG], json.dumps(ro[fld])[:MSG])))
                # annotations of the operation: what is declared must be there (summary falls back to the description,
                # operationId is synthesized when not declared - C03's subject)
                if eo.get("operationId") and eo["operationId"] != ro.get("operationId"):
                    out.append(("operationId-differs", "%s %s: operationId expected %r, document %r" % (m, pat, eo["operationId"], ro.get("operationId"))))
                want_sum = eo.get("summary") or eo.get("description")
                if want_sum and want_sum != ro.get("summary"):
                    out.append(("summary-differs", "%s %s: summary expected %r, document %r" % (m, pat, want_sum, ro.get("summary"))))
                if (eo.get("description") or "") != (ro.get("description") or ""):
                    out.append(("operation-description-differs", "%s %s: description expected %r, document %r" % (m, pat, eo.get("description"), ro.get("description"))))
                if list(eo.get("tags") or []) != list(ro.get("tags") or []):
                    out.append(("tags-differ", "%s %s: tags expected %r, document %r" % (m, pat, eo.get("tags"), ro.get("tags"))))
                if eo.get("request") and (ro.get("request_desc") or "") not in ({eo.get("request_desc") or ""} | (set(eo.get("request_desc_alt") or [""]) if not eo.get("request_desc") else set())):
                    out.append(("request-description-differs", "%s %s: request body description expected %r, document %r" % (m, pat, eo.get("request_desc"), ro.get("request_desc"))))
                for k_, allowed in (eo.get("resp_desc_alt") or {}).items():
                    if k_ in (ro.get("resp_desc") or {}) and ro["resp_desc"][k_] not in allowed:
                        out.append(("response-description-differs", "%s %s %s: description expected one of %r, document %r" % (m, pat, k_, sorted(allowed), ro["resp_desc"][k_])))
                for k_, got_d in (ro.get("resp_desc") or {}).items():
                    if got_d and k_ not in (eo.get("resp_desc_alt") or {}):
                        out.append(("response-description-undeclared", "%s %s %s: description %r is not declared" % (m, pat, k_, got_d)))
                # a response of the document is keyed by status; its content by media type.  A declared content with a body
                # must be there under (status, media); a declared content without a body only requires the status.  Headers
                # belong to the status (OpenAPI cannot attach them to one media type): every header declared by some
                # content of that status must be there (contents of one status that disagree on a header's schema are skipped)
                er = {(k, md): s for k, md, s, h in eo["responses"] if md is not None}
                # two declared contents that fall into the same slot of the document once the default media type is filled in
                # (`<media="application/json", A> :: B`): one of them has to give way and the statement does not say which -
                # the slot must exist, its schema is not compared
                seen_slot, ambiguous = {}, set()
                for k, md, s_, h in eo["responses"]:
                    if md is None:
                        continue
                    js = json.dumps(s_, sort_keys=True)
                    if (k, md) in seen_slot and seen_slot[(k, md)] != js:
                        ambiguous.add((k, md))
                    seen_slot[(k, md)] = js
                rr = {(k, md): s for k, md, s, h in ro["responses"] if md is not None}
                rstat = {k for k, md, s, h in ro["responses"]}
                for k, md, s, h in eo["responses"]:
                    if md is None and k not in rstat:
                        out.append(("response-missing", "%s %s: response %s (no body) is declared but not in the document" % (m, pat, k)))
                for key in er:
                    if key not in rr:
                        out.append(("response-missing", "%s %s: response %s (media %s) is declared but not in the document" % (m, pat, key[0], key[1])))
                    elif key not in ambiguous and json.dumps(er[key], sort_keys=True) != json.dumps(rr[key], sort_keys=True):
                        out.append((differ("response-schema-differs", er[key], rr[key]), "%s %s %s: expected %s, document %s" % (m, pat, key, json.dumps(er[key])[:300], json.dumps(rr[key])[:300])))
                for key in rr:
                    if key not in er:
                        out.append(("response-undeclared", "%s %s: response %s (media %s) is in the document but not declared" % (m, pat, key[0], key[1])))
                eh, rh, clash = {}, {}, set()
                for k, md, s, h in eo["responses"]:
                    for hd in h:
                        prev = eh.setdefault(k, {}).setdefault(hd[0], hd)
                        if json.dumps(prev, sort_keys=True) != json.dumps(hd, sort_keys=True):
                            clash.add((k, hd[0]))
                for k, md, s, h in ro["responses"]:
                    for hd in h:
                        rh.setdefault(k, {})[hd[0]] = hd
                for k in sorted(set(eh) | set(rh)):
                    if k not in rstat:
                        continue
                    for hn in sorted(set(eh.get(k, {})) | set(rh.get(k, {}))):
                        if (k, hn) in clash:
                            continue
                        a, b = eh.get(k, {}).get(hn), rh.get(k, {}).get(hn)
                        if a is None:
                            out.append(("response-header-undeclared", "%s %s %s: header %s is in the document but not declared" % (m, pat, k, hn)))
                        elif b is None:
                            out.append(("response-header-missing", "%s %s: header %s of response %s is declared but not in the document" % (m, pat, hn, k)))
                        elif json.dumps(a, sort_keys=True) != json.dumps(list(b), sort_keys=True):
                            out.append((differ("response-headers-differ", a, list(b)), "%s %s %s: header %s expected %s, document %s" % (m, pat, k, hn, json.dumps(a)[:160], json.dumps(b)[:160])))
            if len(its) == 1:
                for m in r["ops"]:
                    if m not in e["ops"]:
                        out.append(("operation-undeclared", "%s %s is in the document but not declared" % (m, pat)))
    for pat in rp:
        if pat not in ep:
            out.append(("path-undeclared", "path %s is in the document but not declared" % pat))
    for name, s in real["comps"].items():
        if name not in exp["comps"]:
            out.append(("component-undeclared", "component %s is not a reference declaration of the program" % name))
        elif json.dumps(exp["comps"][name], sort_keys=True) != json.dumps(s, sort_keys=True):
            out.append((differ("component-differs", exp["comps"][name], s), "component %s: expected %s, document %s" % (name, json.dumps(exp["comps"][name])[:200], json.dumps(s)[:200])))
    return out
