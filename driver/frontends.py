"""Runs the three front ends (oal-cli, oal_wasm::compile, oal-lsp) on sets of sources and records
one observation per front end (used by C13 and C04)."""
import concurrent.futures as cf
import json
import os
import re
import shutil
import threading

import cli
import common
import lsp

URLS = re.compile(r"file://[^\s\]\)]*")


def located_in(stderr, d, files):
    """the diagnostic names one of the source modules (with or without line:column)"""
    for u in URLS.findall(stderr):
        u = re.sub(r"(:\d+)+$", "", u.rstrip(":"))
        for rel in files:
            if u == "file://" + os.path.join(d, rel):
                return True
    return False
_counter = [0]
_lock = threading.Lock()


def _dir(prefix):
    with _lock:
        _counter[0] += 1
        n = _counter[0]
    return os.path.join(common.workdir(prefix), "r%d" % n)


def run_cli(src, base=None, via_config=False, target_exists=False):
    d = _dir("fe-cli")
    r = cli.run(src["files"], main=src.get("main", "main.oal"), base=base, via_config=via_config,
                target_exists=target_exists, workdir=d, timeout=60.0)
    shutil.rmtree(d, ignore_errors=True)
    obs = {"exit": r["exit"], "changed": r["target_changed"], "decoy_changed": r["decoy_changed"], "located": located_in(r["stderr"], d, src["files"]),
           "timed_out": r["timed_out"], "stderr": r["stderr"][:300] + (" ... " + r["stderr"][-300:] if len(r["stderr"]) > 300 else ""), "target": r["target"] if r["target_changed"] else None}
    return obs


def run_lsp(src):
    """one load/evaluate cycle of the real language server on the sources (as files on disk)"""
    d = _dir("fe-lsp")
    os.makedirs(d)
    for rel, text in src["files"].items():
        p = os.path.join(d, rel)
        os.makedirs(os.path.dirname(p), exist_ok=True)
        with open(p, "w", encoding="utf-8", newline="") as f:
            f.write(text)
    with open(os.path.join(d, "oal.toml"), "w") as f:
        f.write('[api]\nmain = "%s"\ntarget = "out.yaml"\n' % src.get("main", "main.oal"))
    s = lsp.Server(d)
    main_uri = lsp.uri_of(os.path.join(d, src.get("main", "main.oal")))
    r = s.barrier(main_uri)
    dead = isinstance(r, dict) and ("__dead__" in r)
    hung = isinstance(r, dict) and ("__timeout__" in r)
    n = sum(len(v) for v in s.diags.values())
    msgs = [m["message"] for v in s.diags.values() for m in v][:5]
    # a second cycle with the main document opened in the editor (text held by the server)
    if not dead and not hung:
        s.open(main_uri, src["files"][src.get("main", "main.oal")])
        r2 = s.barrier(main_uri)
        dead = isinstance(r2, dict) and ("__dead__" in r2)
        hung = isinstance(r2, dict) and ("__timeout__" in r2)
        n2 = sum(len(v) for v in s.diags.values())
    else:
        n2 = n
    # a third cycle: the editor changes the buffer into something else and closes the document without saving - the
    # sources are the files on disk again
    n3 = n2
    if not dead and not hung:
        other = "res / on get -> <{}>;\n" if n >= 1 else src["files"][src.get("main", "main.oal")] + "\n$ % ^\nlet = ;\n"
        s.change(main_uri, [{"text": other}])            # a full-text change
        s.barrier(main_uri)
        s.close(main_uri)
        r3 = s.barrier(main_uri)
        dead = isinstance(r3, dict) and ("__dead__" in r3)
        hung = isinstance(r3, dict) and ("__timeout__" in r3)
        n3 = sum(len(v) for v in s.diags.values())
    code = None
    if dead:
        code = s.p.poll()
    s.stop()
    shutil.rmtree(d, ignore_errors=True)
    return {"diagnostics": n, "diagnostics_open": n2, "diagnostics_closed": n3, "dead": dead, "hung": hung, "exit": code, "messages": msgs}


def run_all(sources, cli_configs=((None, False, False),), jobs=8, with_lsp=True, base_text=None):
    """sources: list of {"files", "main", "predicted"}.  Returns list of observations
    {"cli": [..per config..], "wasm": {...}|None, "lsp": {...}|None}."""
    common.build_bins()
    common.build_harness()
    single = [i for i, s in enumerate(sources) if len(s["files"]) == 1]
    wasm_res = {}
    if single:
        res = common.run_oalv_parallel("wasm", [{"text": sources[i]["files"][sources[i].get("main", "main.oal")]} for i in single], jobs=8)
        for i, r in zip(single, res):
            wasm_res[i] = r

    def one(i):
        s = sources[i]
        out = {"cli": [], "wasm": wasm_res.get(i), "lsp": None}
        for (b, cfg, ex) in cli_configs:
            o = run_cli(s, base=base_text if b else None, via_config=cfg, target_exists=ex)
            o.update({"base": bool(b), "config": cfg, "existed": ex})
            out["cli"].append(o)
        if with_lsp:
            out["lsp"] = run_lsp(s)
        return out
    with cf.ThreadPoolExecutor(max_workers=jobs) as ex:
        return list(ex.map(one, range(len(sources))))


def crashes(obs):
    """list of (front end, description) for outcomes that are neither a result nor diagnostics"""
    out = []
    for c in obs["cli"]:
        if c["timed_out"]:
            out.append(("cli", "hang"))
        elif c["exit"] not in (0, 1):
            out.append(("cli", "exit %s: %s" % (c["exit"], c["stderr"][-200:].replace("\n", " "))))
    w = obs.get("wasm")
    if w is not None and w.get("outcome") != "ok":
        if w.get("outcome") != "skipped":
            out.append(("wasm", "%s %s" % (w.get("outcome"), w.get("msg", ""))))
    l = obs.get("lsp")
    if l is not None:
        if l["dead"]:
            out.append(("lsp", "server exited (%s)" % l["exit"]))
        elif l["hung"]:
            out.append(("lsp", "hang"))
    return out


def mode_of(cfg):
    """CfgModes of Frontends.tla"""
    return cfg if isinstance(cfg, str) else ("config" if cfg else "options")


def trace_events(src, obs):
    ev = [{"e": "src", "predicted": src.get("predicted", "")}]
    for c in obs["cli"]:
        ev.append({"e": "cli", "base": c["base"], "config": mode_of(c["config"]), "existed": c["existed"], "decoy_changed": bool(c.get("decoy_changed")),
                   "exit": c["exit"] if c["exit"] is not None else -1, "changed": bool(c["changed"]), "located": c["located"]})
    w = obs.get("wasm")
    if w is not None and w.get("outcome") == "ok":
        ev.append({"e": "wasm", "ok": w["error"] == "" and w["api"] != ""})
    l = obs.get("lsp")
    if l is not None and not l["dead"] and not l["hung"]:
        ev.append({"e": "lsp", "diagnostics": l["diagnostics"] >= 1})
        if "diagnostics_open" in l:
            ev.append({"e": "lsp", "diagnostics": l["diagnostics_open"] >= 1})
    return ev
