"""C05 — abstraction is free: naming, inlining, wrapping, reordering keep the output.

(S) TLC: EvalAbsMC.tla AbstractionFree - for every (position, shape) of the PosShape family the
    outcome predicted by Kinds.tla/EvalAbs.tla is the same whether the value is written in place,
    named with let, passed through an identity function, or the let / the function is moved to an
    imported module; PegMC.tla TriviaInvisible (comments and white space between tokens do not
    change the parse, C12); RefTable of Binding.tla does not depend on the order of declarations.
(O) for accepted family members and the rewrites expressible on the abstract syntax - parenthesise
    any expression, permute declarations, rename consistently, four trivia styles, name a closed
    sub-expression with let, inline a let, wrap a sub-expression in a single-use function, move a
    dependency-closed group of declarations to an imported module, and the family's own
    indirections - original and rewritten program are compiled by the real compiler: the rewritten
    program must be accepted and emit the same document up to generated component names
    (absdoc.canon).  Rewrite sequences in the thorough tier.
"""
import json
import random

import absdoc
import common
import progs
import render
import rewrites
from common import Check, run_tlc, run_oalv_parallel


def variants_of(prog, rng, tier, all_perms=False, all_abstractions=False):
    """(rewrite name, program, render options)"""
    out = []
    for st in (1, 2, 3, 4):
        out.append(("trivia-style-%d" % st, prog, {"style": st}))
    for q in (progs.permutations_of(prog, limit=30, rng=rng) if all_perms else progs.permutations_of(prog, limit=3, rng=rng)[:2]):
        out.append(("permute-declarations", q, {}))
    out.append(("rename-consistently", progs.rename_consistently(prog), {}))
    for q in rewrites.alpha_rename_each(prog)[:4 if tier == "quick" else 12]:
        out.append(("rename-one-binder", q, {}))
    m = prog["main"]
    eps = rewrites.expr_paths(prog["mods"][m])
    rng.shuffle(eps)
    paren = [".".join(map(str, p)) for p, n, b, cx in eps if cx in ("expr", "rhs")]
    out.append(("parenthesise-all", prog, {"extra_parens": {m: paren}}))
    for p in paren[:2]:
        out.append(("parenthesise-one", prog, {"extra_parens": {m: [p]}}))
    k = 0
    for p, n, b, cx in eps:
        if cx not in ("expr", "rhs") or n["k"] in ("prop", "meta", "xfer") and False:
            continue
        if k >= (2 if tier == "quick" else 5):
            break
        q = rewrites.name_with_let(prog, p, n, b)
        if q is not None and n["k"] != "var":
            out.append(("name-with-let", q, {}))
            k += 1
        w = rewrites.wrap_in_function(prog, p, n)
        out.append(("wrap-in-function", w, {}))
    if not rewrites.has_annotations(prog):
        k = 0
        for p, n, b, cx in eps:
            if cx not in ("expr", "rhs") or n["k"] in ("var", "prim", "lit"):
                continue
            if all_abstractions:
                # the small directed families: every expression with every closed sub-expression abstracted out of it
                for q in (rewrites.abstract_subterm(prog, p, n, b, None) or [])[:12]:
                    out.append(("abstract-subterm", q, {}))
                continue
            q = rewrites.abstract_subterm(prog, p, n, b, rng)
            if q is not None:
                out.append(("abstract-subterm", q, {}))
                k += 1
                if k >= (2 if tier == "quick" else 5):
                    break
    q = rewrites.rename_decl_to_imported_name(prog)
    if q is not None:
        out.append(("rename-to-imported-name", q, {}))
    q = rewrites.inline_let(prog)
    if q is not None:
        out.append(("inline-let", q, {}))
    q = rewrites.move_to_module(prog)
    if q is not None:
        out.append(("move-to-module", q, {}))
    return out


def case_of(prog, opts):
    rp = render.render_program(prog, style=opts.get("style", 0), extra_parens=opts.get("extra_parens"))
    return {"main": rp["main"], "files": rp["files"], "want": {"doc": True}}


def good(o):
    return o.get("outcome") == "ok" and o.get("load", {}).get("result") == "ok" and o.get("eval", {}).get("result") == "ok" and o.get("emit", {}).get("result") == "ok"


def run(tier):
    chk = Check("C05", tier)
    rng = random.Random(common.seed())
    common.build_harness()
    rf = run_tlc("EvalAbsMC", "EvalAbs_free.cfg", workers=8, timeout=1800, java_opts=["-Xss512m"])
    chk.add_tlc(rf)
    if not rf.ok:
        chk.violation("C05|design", "EvalAbsMC.tla AbstractionFree fails on the specification", {"tlc": rf.violation})
    r = run_tlc("EvalAbsMC", "EvalAbs_quick.cfg" if tier == "quick" else "EvalAbs_thorough.cfg", workers=8, timeout=1800, java_opts=["-Xss512m"])
    chk.add_tlc(r)
    members = [c for c in r.cases if c["outcome"] == "OK"]
    # the family's own indirections: same (position, shape), different way of supplying the value
    groups = {}
    for c in members:
        if c["ind"] in ("direct", "let", "idfn", "implet", "impfn"):
            groups.setdefault((c["pos"], c["shape"]), []).append(c)
    # annotated values (schema, property, content and transfer level; declaration, terminal and use-site annotations)
    ra = run_tlc("DenMC", "Den_annots.cfg", workers=8, timeout=1800, java_opts=["-Xss512m"])
    chk.add_tlc(ra)
    annots = [dict(c, pos=c["label"][0], shape=c["label"][1], ind=c["label"][2], use=c["label"][3]) for c in ra.cases if c["defined"]]
    for c in annots:
        # written in place there is no separate use site: the in-place form is the base only for use = none
        if c["ind"] in ("direct", "let", "idfn", "implet", "impfn"):
            groups.setdefault(("annots", c["pos"], c["shape"], c["use"]), []).append(c)
    # recursive instantiations (functions whose body holds a rec depending on the parameter, applied several times) and
    # random composite programs are subjects of the rewrites too
    import gen
    rr = run_tlc("DenMC", "Prog_recinst.cfg", workers=4, timeout=900, java_opts=["-Xss512m"])
    chk.add_tlc(rr)
    extra = [{"prog": c["prog"], "pos": "recinst", "shape": str(i), "ind": "direct"} for i, c in enumerate(rr.cases)]
    rdyn = run_tlc("DenMC", "Prog_dynscope.cfg", workers=4, timeout=900, java_opts=["-Xss512m"])
    chk.add_tlc(rdyn)
    extra += [{"prog": c["prog"], "pos": "dynscope", "shape": str(i), "ind": "direct"} for i, c in enumerate(rdyn.cases)]
    comp = gen.programs(common.seed() * 1000 + 5, 120 if tier == "quick" else 1500, p_bad=0.0)
    extra += [{"prog": p, "pos": "composite", "shape": str(i), "ind": "direct"} for i, p in enumerate(comp)]
    nsel = 120 if tier == "quick" else 1200
    sel = members if len(members) <= nsel else rng.sample(members, nsel)
    nann = 60 if tier == "quick" else 600
    directed = [c for c in annots if c["pos"] == "recann"]          # always, with every order of their statements
    rest = [c for c in annots if c["pos"] != "recann"]
    sel = sel + directed + (rest if len(rest) <= nann else rng.sample(rest, nann)) + extra
    cases = []
    meta = []
    for c in sel:
        cases.append(case_of(c["prog"], {}))
        meta.append((c, "original", None))
        for name, q, opts in variants_of(c["prog"], rng, tier, all_perms=(c.get("pos") == "recann"), all_abstractions=(c.get("pos") in ("recinst", "dynscope"))):
            cases.append(case_of(q, opts))
            meta.append((c, name, None))
    for key, cs in groups.items():
        if len(cs) < 2:
            continue
        base = [c for c in cs if c["ind"] == "direct"] or [c for c in cs if c["ind"] == "let"]
        if not base:
            continue
        cases.append(case_of(base[0]["prog"], {}))
        meta.append((base[0], "original", key))
        for c in cs:
            if c is not base[0]:
                cases.append(case_of(c["prog"], {}))
                meta.append((base[0], "indirection-" + c["ind"], key))
    obs = run_oalv_parallel("compile", cases, jobs=8)
    cur = None
    pairs = 0
    per_rewrite = {}
    for (c, name, key), hc, o in zip(meta, cases, obs):
        if o.get("outcome") == "skipped":
            continue
        if name == "original":
            cur = (hc, o)
            continue
        ohc, oo = cur
        if not good(oo):
            continue
        pairs += 1
        per_rewrite[name] = per_rewrite.get(name, 0) + 1
        payload = {"original": ohc["files"], "rewritten": hc["files"], "rewrite": name, "family": [c["pos"], c["shape"], c["ind"]]}
        if not good(o):
            ro = progs.real_outcome(o)
            chk.violation("C05|rejected-after|%s" % name.split("-style")[0], "after %s the program is no longer accepted (%s %s): %r" % (
                name, ro["k"], ro.get("cls") or ro.get("msg", "")[:60], list(hc["files"].values())[0][:160]), payload)
        elif not absdoc.same(oo["doc"], o["doc"]):
            payload["difference"] = absdoc.first_difference(oo["doc"], o["doc"])
            dd = payload["difference"] or ""
            field = dd.split(":")[0].rstrip("/").split("/")[-1] if dd else "?"
            field = "component" if field.startswith("hash-") or "/components/" in dd.split(":")[0] and field not in ("title", "description") else field
            how = "missing" if "only on one side" in dd else "changed"
            chk.violation("C05|document-changed|%s|%s|%s" % (name.split("-style")[0], field, how), "after %s the document differs at %s: %r" % (
                name, payload["difference"], list(hc["files"].values())[0][:160]), payload)
        else:
            chk.cov["traces_validated_against_impl"] += 1
    chk.cov["evaluations"] = pairs
    chk.cov["distinct_nontrivial"] = len(sel) + len(groups)
    chk.notes["pairs_per_rewrite"] = per_rewrite
    chk.cov["rule"] = ("accepted members of the PosShape/FnPos families (a seeded sample) x rewrites {4 trivia styles (the fourth cycles through 13 block-comment shapes: empty, runs of stars at either end and inside, slashes, several lines, adjacent comments), 2 permutations, consistent renaming, renaming of one binder at a time (alpha-conversion), renaming a local declaration to a name an unqualified import exports, parenthesise all / "
                       "one, name-with-let, wrap-in-function, abstract-subterm (beta-expansion), inline-let, move-to-module}; the same on the RecInst and DynScope families and on seeded random composite programs (those the compiler accepts) + for every (position, shape) the let / identity-function / imported variants "
                       "against the direct one; evaluations = (original, rewritten) pairs compiled and compared; non-trivial = distinct originals")
    if cases:
        chk.sample({"original": cases[0]["files"], "rewritten_example": cases[min(5, len(cases) - 1)]["files"]})
    chk.assumptions = [
        "documents are compared up to the generated names of implicit components: every hash-named component is unfolded at its uses",
        "name-with-let is applied to sub-expressions without free parameters / rec binders; inline-let to parameterless non-reference, non-recursive declarations; wrap-in-function uses an identity function and is not applied where the grammar demands an object literal",
        "turning a value into a reference (@let) is not a meaning-preserving rewrite (it creates a component) and is excluded",
    ]
    return chk.finish()


def replay(path):
    d = json.load(open(path))
    c = d["case"]
    common.build_harness()
    a = common.run_oalv("compile", [{"main": progs.B + "m1.oal", "files": c["original"], "want": {"doc": True}}])[0]
    b = common.run_oalv("compile", [{"main": progs.B + "m1.oal", "files": c["rewritten"], "want": {"doc": True}}])[0]
    print("original:", json.dumps(c["original"]))
    print("rewritten (%s):" % c["rewrite"], json.dumps(c["rewritten"]))
    print("difference:", absdoc.first_difference(a.get("doc"), b.get("doc")) if good(a) and good(b) else (progs.real_outcome(a), progs.real_outcome(b)))
    return 0
