"""Expected answers of the language-server queries derived from the specification's binding
relation (CASE lines of ResolveMC.tla) and the renderer's source map; shared by C17 and C18."""
import json
import os
import shutil

import common
import lsp
import render

BASE_MARK = "file:///w/"


def pkey(p):
    return ".".join(str(i) for i in p)


def pos16(text_bytes_prefix):
    t = text_bytes_prefix.decode("utf-8")
    line = t.count("\n")
    ls = t.rfind("\n") + 1
    col = sum(2 if ord(c) > 0xFFFF else 1 for c in t[ls:])
    return {"line": line, "character": col}


def rng16(raw, s, e):
    return {"start": pos16(raw[:s]), "end": pos16(raw[:e])}


def offset_of(text, line, ch):
    """byte offset of an LSP position (clamped as the protocol says) - independent of the server code"""
    lines = text.split("\n")
    if line >= len(lines):
        return len(text.encode("utf-8"))
    start = sum(len(l.encode("utf-8")) + 1 for l in lines[:line])
    body = lines[line]
    if body.endswith("\r"):
        body = body[:-1]
    col = 0
    i = 0
    while i < len(body) and col < ch:
        col += 2 if ord(body[i]) > 0xFFFF else 1
        i += 1
    return start + len(body[:i].encode("utf-8"))


def all_positions(text):
    out = []
    for ln, body in enumerate(text.split("\n")):
        if body.endswith("\r"):
            body = body[:-1]
        col = 0
        for c in body:
            out.append((ln, col))
            col += 2 if ord(c) > 0xFFFF else 1
        out.append((ln, col))
        out.append((ln, col + 3))         # beyond the end of the line: clamped
    return out


class Model:
    """binding relation + source map of one rendered program"""

    def __init__(self, group, style):
        import copy
        self.prog = copy.deepcopy(group["prog"])
        # module layout: flat for even styles; for odd styles the imported modules live in sub-directories of the
        # folder and the use statements of the main module spell the relative path
        nested = style % 2 == 1
        self.relpath = {}
        others = sorted(m for m in self.prog["mods"] if m != self.prog["main"])
        for i, m in enumerate(others):
            self.relpath[m] = ("lib/%s.oal" % m if i % 2 == 0 else "lib/deep/%s.oal" % m) if nested else m + ".oal"
        self.relpath[self.prog["main"]] = self.prog["main"] + ".oal"
        import posixpath
        for m, stmts in self.prog["mods"].items():
            for st in stmts:
                if st["k"] == "use":
                    st["spelling"] = posixpath.relpath(self.relpath[st["s"]], posixpath.dirname(self.relpath[m]) or ".")
        self.tables = {m: {pkey(r["use"]): r["b"] for r in group["mods"][m]["table"]} for m in group["mods"]}
        self.r = render.render_program(self.prog, style=style)
        main = self.prog["mods"][self.prog["main"]]
        self.loaded = [self.prog["main"]]
        for m in self.loaded:                       # transitive closure of the imports, in discovery order
            for st in self.prog["mods"][m]:
                if st["k"] == "use" and st["s"] not in self.loaded:
                    self.loaded.append(st["s"])
        self.text = {m: self.r["files"][BASE_MARK + m + ".oal"] for m in self.prog["mods"]}
        self.raw = {m: self.text[m].encode("utf-8") for m in self.text}
        self.tokens = {m: self._tokens(m) for m in self.loaded}

    def _tokens(self, m):
        """identifier tokens of module m: (start, end, class, info)"""
        toks = []
        mp = self.r["maps"][m]
        stmts = self.prog["mods"][m]

        def walk(n, path):
            ent = mp.get(pkey(path), {})
            if n["k"] == "var":
                b = self.tables[m].get(pkey(path))
                if "qual" in ent:
                    toks.append((ent["qual"][0], ent["qual"][1], "var-qual", {"path": path, "b": b, "span": ent["span"], "name": ent["name"], "q": n["q"]}))
                toks.append((ent["name"][0], ent["name"][1], "var-name", {"path": path, "b": b, "span": ent["span"], "name": ent["name"], "q": n["q"]}))
            elif n["k"] == "rec":
                toks.append((ent["name"][0], ent["name"][1], "rec-binder", {"path": path}))
            if n["k"] == "decl":
                walk(n["a"][n["n"]], path + [n["n"] + 1])
                return
            for i, c in enumerate(n["a"]):
                walk(c, path + [i + 1])
        for i, st in enumerate(stmts):
            ent = mp[pkey([i + 1])]
            if st["k"] == "decl":
                toks.append((ent["name"][0], ent["name"][1], "decl-name", {"path": [i + 1]}))
                for j in range(st["n"]):
                    be = mp[pkey([i + 1, j + 1])]
                    toks.append((be["span"][0], be["span"][1], "param-binder", {"path": [i + 1, j + 1]}))
            elif st["k"] == "use" and st["q"]:
                toks.append((ent["qual"][0], ent["qual"][1], "use-qual", {"path": [i + 1], "q": st["q"]}))
            walk(st, [i + 1])
        return toks

    def token_at(self, m, off):
        for t in self.tokens[m]:
            if t[0] <= off < t[1]:
                return t
        return None

    def var_at(self, m, off):
        for t in self.tokens[m]:
            if t[2] in ("var-name", "var-qual") and t[3]["span"][0] <= off < t[3]["span"][1]:
                return t
        return None

    def binder_location(self, b, ws):
        mp = self.r["maps"][b["m"]]
        ent = mp[pkey(b["p"])]
        sp = ent["name"] if b["kind"] == "rec" else ent["span"]
        return {"uri": ws.uri(b["m"]), "range": rng16(self.raw[b["m"]], sp[0], sp[1])}

    def uses_of(self, b):
        """(module, var-name token info) of every use bound to binder b in the loaded modules"""
        out = []
        for m in self.loaded:
            for t in self.tokens[m]:
                if t[2] == "var-name" and t[3]["b"] == b:
                    out.append((m, t))
        return out

    def binder_of_token(self, m, t):
        if t[2] in ("var-name", "var-qual"):
            return t[3]["b"]
        if t[2] == "decl-name":
            return {"m": m, "p": t[3]["path"], "kind": "decl"}
        return None


class Ws:
    def __init__(self, tag, model):
        self.dir = os.path.join(common.workdir("lspq"), tag)
        if os.path.isdir(self.dir):
            shutil.rmtree(self.dir)
        os.makedirs(self.dir)
        self.relpath = dict(model.relpath)
        for m, t in model.text.items():
            p = os.path.join(self.dir, self.relpath[m])
            os.makedirs(os.path.dirname(p), exist_ok=True)
            with open(p, "w", encoding="utf-8", newline="") as f:
                f.write(t)
        with open(os.path.join(self.dir, "oal.toml"), "w") as f:
            f.write('[api]\nmain = "%s.oal"\ntarget = "out.yaml"\n' % model.prog["main"])

    def uri(self, m):
        return lsp.uri_of(os.path.join(self.dir, self.relpath[m]))

    def mod_of(self, uri):
        return os.path.basename(uri)[:-4]         # module names are unique whatever the directory

    def drop(self):
        shutil.rmtree(self.dir, ignore_errors=True)


def norm_loc(l):
    return json.dumps(l, sort_keys=True)
