"""C16 — editor positions and byte offsets convert exactly in both directions.

(S) TLC: Unicode.tla — the implementation's loops as a state machine agree with the
    declarative LSP reference on every well-formed text up to the bound, every offset
    and position; RoundTrip, Clamp, Monotone, RangeSelects hold for the reference.
(O) spec -> impl: every text of the family with every expected answer is replayed
    through the real position_to_utf8 / utf8_to_position / utf8_range_to_position /
    CharSpan::from.
(T) impl -> spec (thorough): the real functions are run on longer random texts and
    TLC judges the recorded answers with the reference semantics (oracle mode).
"""
import json
import os
import random

import common
from common import Check, run_tlc, run_oalv_parallel, workdir

CH = {"a": "a", "e2": "é", "e3": "€", "e4": "\U0001F600", "LF": "\n", "CR": "\r"}


def to_text(syms):
    return "".join(CH[s] for s in syms)


def client_select(text, rng):
    """Independent model of an LSP client: select the UTF-16 range in its document."""
    units = text.encode("utf-16-le")
    n16 = len(units) // 2

    def u(i):
        return units[2 * i:2 * i + 2].decode("utf-16-le", "surrogatepass")
    # line starts in UTF-16 units; terminators \r\n, \n, \r
    starts = [0]
    ends = []
    i = 0
    while i < n16:
        c = u(i)
        if c == "\r" and i + 1 < n16 and u(i + 1) == "\n":
            ends.append(i)
            i += 2
            starts.append(i)
        elif c in ("\n", "\r"):
            ends.append(i)
            i += 1
            starts.append(i)
        else:
            i += 1
    ends.append(n16)

    def off(pos):
        l, c = pos
        if l >= len(starts):
            return n16
        return min(starts[l] + c, ends[l])
    s, e = off(rng[0]), off(rng[1])
    return units[2 * s:2 * e].decode("utf-16-le", "surrogatepass")


def make_case(c):
    text = to_text(c["text"])
    offsets = [x[0] for x in c["u2p"]]
    positions = []
    for l, row in enumerate(c["p2u"]):
        for col, _ in enumerate(row):
            positions.append([l, col])
    b = len(text.encode())
    bounds = sorted(set([0] + [i for i in range(b + 1) if text.encode()[:i].decode("utf-8", "ignore").encode() == text.encode()[:i]]))
    ranges = [[s, e] for s in bounds for e in bounds if s <= e]
    return {"text": text, "offsets": offsets, "positions": positions, "ranges": ranges}


def compare(chk, c, case, res, cs):
    """c: spec prediction, res: observation from oalv unicode, cs: observation from charspan"""
    text = case["text"]
    if res.get("outcome") != "ok":
        chk.violation("C16|crash|%s" % res.get("outcome"), "conversion %s on %r" % (res.get("outcome"), text),
                      {"text": c["text"], "obs": res})
        return 1
    bad = 0
    for (o, l, col), got in zip(c["u2p"], res["u2p"]):
        if l == -1:
            continue
        if got != [l, col]:
            bad += 1
            chk.violation("C16|utf8_to_position", "utf8_to_position(%r, %d) = %s, reference %s" % (text, o, got, [l, col]),
                          {"text": c["text"], "offset": o, "expected": [l, col], "observed": got})
    k = 0
    for l, row in enumerate(c["p2u"]):
        for col, exp in enumerate(row):
            got = res["p2u"][k]
            k += 1
            if exp == -1:
                continue
            if got != exp:
                bad += 1
                chk.violation("C16|position_to_utf8", "position_to_utf8(%r, (%d,%d)) = %s, reference %s" % (text, l, col, got, exp),
                              {"text": c["text"], "position": [l, col], "expected": exp, "observed": got})
    # char spans (oal-model span.rs)
    if cs is not None:
        if cs.get("outcome") != "ok":
            bad += 1
            chk.violation("C16|charspan|crash", "CharSpan::from %s on %r" % (cs.get("outcome"), text), {"text": c["text"]})
        else:
            for (o, _l, _c), exp, got in zip(c["u2p"], c["cs"], cs["spans"]):
                if exp == -1:
                    continue
                if got[0] != exp:
                    bad += 1
                    chk.violation("C16|charspan", "char index of byte %d in %r = %s, reference %s" % (o, text, got[0], exp),
                                  {"text": c["text"], "offset": o, "expected": exp, "observed": got[0]})
    # ranges: the range sent for a span selects exactly the span's text in the client's document
    raw = text.encode()
    crlf_inside = {i + 1 for i in range(len(raw) - 1) if raw[i:i + 2] == b"\r\n"}
    for (s, e), r in zip(case["ranges"], res["r2p"]):
        if s in crlf_inside or e in crlf_inside:
            continue
        sel = client_select(text, r)
        want = raw[s:e].decode()
        if sel != want:
            bad += 1
            chk.violation("C16|range_selects", "range %s for span %d..%d of %r selects %r, not %r" % (r, s, e, text, sel, want),
                          {"text": c["text"], "span": [s, e], "range": r, "selected": sel, "expected": want})
    return bad


def oracle_batch(chk, rng, n, maxlen):
    """impl -> spec: random longer texts, answers of the real code judged by TLC."""
    syms = ["a", "e2", "e3", "e4", "LF", "CRLF", "a", "LF"]
    cases = []
    texts = []
    for _ in range(n):
        ln = rng.randint(maxlen + 1, maxlen + 4)
        t = []
        while len(t) < ln:
            s = rng.choice(syms)
            t.extend(["CR", "LF"] if s == "CRLF" else [s])
        text = to_text(t)
        b = len(text.encode())
        nl = text.count("\n")
        offsets = list(range(0, b + 3))
        positions = [[rng.randint(0, nl + 1), rng.randint(0, 10)] for _ in range(12)]
        cases.append({"text": text, "offsets": offsets, "positions": positions})
        texts.append(t)
    res = run_oalv_parallel("unicode", cases)
    recs = []
    for t, c, r in zip(texts, cases, res):
        if r.get("outcome") != "ok":
            chk.violation("C16|crash|%s" % r.get("outcome"), "conversion %s on %r" % (r.get("outcome"), c["text"]), {"text": t, "obs": r})
            continue
        recs.append({"text": t,
                     "u2p": [[o, p[0], p[1]] for o, p in zip(c["offsets"], r["u2p"])],
                     "p2u": [[p[0], p[1], x] for p, x in zip(c["positions"], r["p2u"])]})
    path = os.path.join(workdir(), "unicode_oracle.ndjson")
    with open(path, "w") as f:
        for r in recs:
            f.write(json.dumps(r) + "\n")
    tr = run_tlc("Unicode", "Unicode_oracle.cfg", workers=8, timeout=600, env_extra={"UNICODE_CASES": path})
    chk.add_tlc(tr)
    if not tr.ok:
        chk.violation("C16|oracle", "answers of the real conversion functions rejected by the reference semantics (TLC oracle mode)",
                      {"tlc": tr.violation, "records": recs[:50]})
    else:
        chk.cov["traces_validated_against_impl"] += len(recs)
    chk.sample({"oracle_record": recs[0]} if recs else {})
    return len(recs)


def run(tier):
    chk = Check("C16", tier)
    rng = random.Random(common.seed())
    common.build_harness()
    alg_cfg = "Unicode_quick.cfg" if tier == "quick" else "Unicode_thorough.cfg"
    case_cfg = "Unicode_cases_quick.cfg" if tier == "quick" else "Unicode_cases_thorough.cfg"
    # (S) the loops agree with the reference on every text/argument within the bound
    r1 = run_tlc("Unicode", alg_cfg, workers=8 if tier == "quick" else 16, timeout=1200)
    chk.add_tlc(r1)
    if not r1.ok:
        # the transcription of the pinned implementation disagrees with the reference:
        # a defect of the design itself
        chk.violation("C16|design", "the transcribed conversion loops violate the reference semantics in TLC",
                      {"tlc": r1.violation})
    # (O) reference answers for every text of the family, replayed on the real code
    r2 = run_tlc("Unicode", case_cfg, workers=8, timeout=1200)
    chk.add_tlc(r2)
    if not r2.ok:
        chk.violation("C16|reference", "RoundTrip/Clamp/Monotone/RangeSelects fails on the reference semantics", {"tlc": r2.violation})
    cases = [make_case(c) for c in r2.cases]
    res = run_oalv_parallel("unicode", cases)
    csr = run_oalv_parallel("charspan", [{"text": c["text"], "spans": [[o, o] for o in c["offsets"]]} for c in cases])
    nontrivial = 0
    points = 0
    for c, case, r, cs in zip(r2.cases, cases, res, csr):
        compare(chk, c, case, r, cs)
        points += len(case["offsets"]) + len(case["positions"]) + len(case["ranges"])
        if any(s in ("e2", "e3", "e4", "CR", "LF") for s in c["text"]):
            nontrivial += 1
    chk.cov["traces_validated_against_impl"] += len(cases)
    chk.cov["evaluations"] = points
    chk.cov["distinct_nontrivial"] = nontrivial
    chk.cov["rule"] = ("every well-formed text over {a, 2-byte, 3-byte, 4-byte, LF, CR LF} up to the length bound is enumerated by TLC "
                       "(Unicode.tla, CaseInit) with the reference answer for every byte offset 0..len+2, every position "
                       "(0..lines+1)x(0..cols+2) and every boundary span; a text is non-trivial when it contains a multi-byte "
                       "character or a line terminator; texts are distinct by construction")
    chk.cov["exhaustive"] = True
    chk.notes["bounds"] = {"alg_cfg": alg_cfg, "case_cfg": case_cfg}
    if r2.cases:
        chk.sample({"text": r2.cases[len(r2.cases) // 2]["text"], "expected_u2p": r2.cases[len(r2.cases) // 2]["u2p"]})
        chk.sample({"text": r2.cases[-1]["text"], "expected_p2u": r2.cases[-1]["p2u"]})
    # (T) longer random texts, judged by TLC
    n = 300 if tier == "quick" else 4000
    oracle_batch(chk, rng, n, 5)
    chk.assumptions = [
        "offsets are on character boundaries and not strictly inside a CR LF pair; columns are on UTF-16 character boundaries or past the end of the line; lone CR does not occur (DESIGN.md section 6)",
        "the symbol-to-character rendering (a, U+00E9, U+20AC, U+1F600, LF, CR) and the Python client-side selection model are trusted",
        "bounded: texts up to the configured length exhaustively, longer texts by seeded sampling",
    ]
    return chk.finish()


def replay(path):
    d = json.load(open(path))
    c = d["case"]
    common.build_harness()
    text = to_text(c["text"])
    print("text:", repr(text), "symbols:", c["text"])
    if "offset" in c:
        r = common.run_oalv("unicode", [{"text": text, "offsets": [c["offset"]], "positions": []}])[0]
        print("spec expects", c.get("expected"), "real code gives", r.get("u2p"))
        return 1 if r.get("u2p", [None])[0] != c.get("expected") else 0
    if "position" in c:
        r = common.run_oalv("unicode", [{"text": text, "offsets": [], "positions": [c["position"]]}])[0]
        print("spec expects", c.get("expected"), "real code gives", r.get("p2u"))
        return 1 if r.get("p2u", [None])[0] != c.get("expected") else 0
    print(json.dumps(c)[:2000])
    return 0
