-------------------------------- MODULE Cycles --------------------------------
(***************************************************************************)
(* oal-compiler/src/typecheck.rs : cycles_check on an abstract definition  *)
(* graph.  The fix-point loop of the code:                                 *)
(*   StartIteration    kosaraju_scc of the current graph                   *)
(*   ProcessComponent  one strongly connected component, in ANY order:     *)
(*                     trivial -> skip; otherwise flag its referential     *)
(*                     nodes is_recursive and collect their incoming edges *)
(*                     in the buffer `inbounds`, which is SHARED by the    *)
(*                     components of one iteration; an empty buffer after  *)
(*                     a non-trivial component is the error                *)
(*   EndIteration      remove the collected edges and iterate again, or    *)
(*                     stop when nothing was collected                     *)
(* Declaratively: accepted iff the sub-graph induced by the non-referential*)
(* definitions is acyclic; a definition is recursive iff it is referential *)
(* and lies on a cycle of the original graph.                              *)
(***************************************************************************)
EXTENDS Naturals, FiniteSets, Sequences, TLC

CONSTANT N                     \* number of definitions

Nodes == 1..N
AllEdges == Nodes \X Nodes

RECURSIVE ReachSet(_, _, _)
ReachSet(E, S, k) == IF k = 0 THEN S ELSE ReachSet(E, S \cup {e[2] : e \in {d \in E : d[1] \in S}}, k - 1)
Succ(E, x) == ReachSet(E, {e[2] : e \in {d \in E : d[1] = x}}, N)        \* nodes reachable by at least one edge
OnCycle(E, x) == x \in Succ(E, x)
SCC(E, x) == {x} \cup {y \in Succ(E, x) : x \in Succ(E, y)}
SCCs(E) == {SCC(E, x) : x \in Nodes}
Trivial(E, c) == Cardinality(c) = 1 /\ \A x \in c : <<x, x>> \notin E

VARIABLES E0, ref,                        \* the input: edges and the set of referential definitions
          E, pc, todo, inbounds, flagged, result
vars == <<E0, ref, E, pc, todo, inbounds, flagged, result>>

Init ==
  /\ E0 \in SUBSET AllEdges /\ ref \in SUBSET Nodes
  /\ E = E0 /\ pc = "iter" /\ todo = {} /\ inbounds = {} /\ flagged = {} /\ result = "run"

StartIteration ==
  /\ pc = "iter"
  /\ todo' = SCCs(E) /\ pc' = "comp"
  /\ UNCHANGED <<E0, ref, E, inbounds, flagged, result>>

ProcessComponent ==
  /\ pc = "comp" /\ todo # {}
  /\ \E c \in todo :
       /\ todo' = todo \ {c}
       /\ IF Trivial(E, c)
          THEN UNCHANGED <<inbounds, flagged, result, pc>>
          ELSE LET rs == c \cap ref
                   inb == inbounds \cup {e \in E : e[2] \in rs}
               IN /\ flagged' = flagged \cup rs
                  /\ inbounds' = inb
                  /\ IF inb = {} THEN result' = "error" /\ pc' = "done" ELSE UNCHANGED <<result, pc>>
  /\ UNCHANGED <<E0, ref, E>>

EndIteration ==
  /\ pc = "comp" /\ todo = {}
  /\ IF inbounds # {}
     THEN E' = E \ inbounds /\ inbounds' = {} /\ pc' = "iter" /\ UNCHANGED result
     ELSE result' = "ok" /\ pc' = "done" /\ UNCHANGED <<E, inbounds>>
  /\ UNCHANGED <<E0, ref, todo, flagged>>

Done == pc = "done" /\ UNCHANGED vars

Next == StartIteration \/ ProcessComponent \/ EndIteration \/ Done
Spec == Init /\ [][Next]_vars /\ WF_vars(StartIteration \/ ProcessComponent \/ EndIteration)

\* ---- properties -------------------------------------------------------------------------------
NonRefEdges == {e \in E0 : e[1] \notin ref /\ e[2] \notin ref}
DeclarativelyOK == \A x \in Nodes \ ref : ~OnCycle(NonRefEdges, x)

\* the verdict does not depend on the order in which components are visited and is the declarative one
Verdict == pc = "done" => ((result = "ok") <=> DeclarativelyOK)

\* exactly the referential definitions on a cycle are flagged recursive
Flags == (pc = "done" /\ result = "ok") => flagged = {x \in ref : OnCycle(E0, x)}

\* only edges into referential nodes are ever removed
OnlyCutsAtReferential == \A e \in E0 \ E : e[2] \in ref

Terminates == <>(pc = "done")
=============================================================================
