--------------------------- MODULE FrontendsTrace ---------------------------
(***************************************************************************)
(* Trace validation for Frontends.tla.  Events (ndjson):                   *)
(*   {e:"src", predicted}        a new set of sources; `predicted` is the  *)
(*                               class the generator intended, or ""       *)
(*   {e:"cli", base, config, existed, exit, changed, located}              *)
(*   {e:"wasm", ok}   {e:"lsp", diagnostics}                               *)
(* The class is not logged: TLC infers it - the trace is accepted iff one  *)
(* class explains all observations of the source.                          *)
(***************************************************************************)
EXTENDS Frontends, Json, IOUtils

Rec == ndJsonDeserialize(IOEnv.TRACE)

VARIABLE l
tvars == <<vars, l>>

IsEvent(e) == l <= Len(Rec) /\ Rec[l].e = e /\ l' = l + 1

Fresh(c) ==
  /\ cls' = c
  /\ pc' = "idle" /\ target' = "none" /\ exit' = -1 /\ located' = FALSE /\ wasm' = "none" /\ lsp' = "none"
  /\ eff' = "?" /\ decoy' = "none"
  /\ UNCHANGED <<hasBase, viaConfig, targetExisted>>

TraceInit ==
  /\ cls \in Classes /\ hasBase = FALSE /\ viaConfig = "options" /\ targetExisted = FALSE /\ eff = "?" /\ decoy = "none"
  /\ pc = "idle" /\ target = "none" /\ exit = -1 /\ located = FALSE /\ wasm = "none" /\ lsp = "none"
  /\ l = 1 /\ TLCSet(1, 1)

\* a new source: any class may be behind it, unless the generator predicted one
TraceSrc ==
  /\ IsEvent("src")
  /\ \E c \in Classes : (Rec[l].predicted = "" \/ Rec[l].predicted = c) /\ Fresh(c)

\* a complete CLI run, composed of the specification's own steps
CliRun(r) ==
  /\ pc \in {"idle", "exited"}
  /\ hasBase' = r.base /\ viaConfig' = r.config /\ targetExisted' = r.existed
  /\ eff' = "T" /\ decoy' = (IF r.config = "both" /\ r.existed THEN "old" ELSE "none")     \* options win: the decoy stays as it was
  /\ LET fails == cls # "ok" IN
     /\ exit' = (IF fails THEN 1 ELSE 0)
     /\ located' = fails
     /\ target' = (IF fails THEN (IF r.existed THEN "old" ELSE "none") ELSE "new")
  /\ pc' = "exited"
  /\ UNCHANGED <<cls, wasm, lsp>>

TraceCli ==
  /\ IsEvent("cli")
  /\ CliRun(Rec[l])
  /\ exit' = Rec[l].exit
  /\ (target' = "new") = Rec[l].changed
  /\ (decoy' = "new") = Rec[l].decoy_changed
  /\ (exit' # 0) => located' = Rec[l].located

TraceWasm ==
  /\ IsEvent("wasm")
  /\ wasm' = (IF cls = "ok" THEN "ok" ELSE "error")
  /\ (wasm' = "ok") = Rec[l].ok
  /\ UNCHANGED <<cls, hasBase, viaConfig, targetExisted, eff, decoy, pc, target, exit, located, lsp>>

TraceLsp ==
  /\ IsEvent("lsp")
  /\ lsp' = (IF cls = "ok" THEN "clean" ELSE "diagnostics")
  /\ (lsp' = "diagnostics") = Rec[l].diagnostics
  /\ UNCHANGED <<cls, hasBase, viaConfig, targetExisted, eff, decoy, pc, target, exit, located, wasm>>

TraceNext == TraceSrc \/ TraceCli \/ TraceWasm \/ TraceLsp
TraceSpec == TraceInit /\ [][TraceNext]_tvars

(***************************************************************************)
(* Monitor mode: one record per set of sources with all its observations;  *)
(* TLC looks for a class that explains every one of them (the same         *)
(* inference as TraceSpec, but each source is judged on its own, so one    *)
(* rejected source does not hide the others).                              *)
(*   {predicted, cli: [{base, config, existed, exit, changed, located}],   *)
(*    wasm: "ok" | "error" | "none", lsp: "clean" | "diagnostics" | "none"} *)
(***************************************************************************)
ObsRec == ndJsonDeserialize(IOEnv.OBS)

CliExplained(c, o) ==
  LET fails == c # "ok" IN
  /\ o.exit = (IF fails THEN 1 ELSE 0)
  /\ o.changed = ~fails                 \* the target is new exactly on success, untouched otherwise
  /\ ~o.decoy_changed                   \* a target named only by the configuration file, overridden by an option, is never touched
  /\ fails => o.located

Explains(c, r) ==
  /\ (r.predicted = "" \/ r.predicted = c)
  /\ \A j \in 1..Len(r.cli) : CliExplained(c, r.cli[j])
  /\ r.wasm # "none" => (r.wasm = (IF c = "ok" THEN "ok" ELSE "error"))
  /\ r.lsp # "none" => (r.lsp = (IF c = "ok" THEN "clean" ELSE "diagnostics"))

ObsInit ==
  /\ l \in 1..Len(ObsRec)
  /\ cls \in Classes /\ hasBase = FALSE /\ viaConfig = "options" /\ targetExisted = FALSE /\ eff = "?" /\ decoy = "none"
  /\ pc = "idle" /\ target = "none" /\ exit = -1 /\ located = FALSE /\ wasm = "none" /\ lsp = "none"
ObsNext == UNCHANGED tvars

\* evaluated once per (source, candidate class); a source is explained iff some class passes
ObsJudge == Explains(cls, ObsRec[l]) => PrintT(<<"EXPLAINED", ToJson([l |-> l, cls |-> cls])>>)

\* Totality monitor (C04): the recorded outcomes are outcomes the specification has at all -
\* the CLI exits with 0 or 1, the playground answers, the server stays alive - without asking
\* for agreement between the front ends (that is C13).
TotalCli  == IsEvent("cli")  /\ Rec[l].exit \in {0, 1} /\ ~Rec[l].hang /\ UNCHANGED vars
TotalWasm == IsEvent("wasm") /\ Rec[l].answered /\ UNCHANGED vars
TotalLsp  == IsEvent("lsp")  /\ Rec[l].alive /\ UNCHANGED vars
TotalSrc  == IsEvent("src")  /\ UNCHANGED vars
TotalNext == TotalSrc \/ TotalCli \/ TotalWasm \/ TotalLsp
TotalSpec == TraceInit /\ [][TotalNext]_tvars

TrackL == IF l > TLCGet(1) THEN TLCSet(1, l) ELSE TRUE

TraceAccepted ==
  LET reached == TLCGet(1) IN
  IF reached = Len(Rec) + 1 THEN TRUE
  ELSE /\ PrintT(<<"REJECTED", ToJson([at |-> reached, event |-> Rec[reached]])>>)
       /\ FALSE
=============================================================================
