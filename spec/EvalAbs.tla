------------------------------- MODULE EvalAbs -------------------------------
(***************************************************************************)
(* Abstract interpretation of oal-compiler/src/eval.rs at the granularity  *)
(* that type soundness talks about: values are *variants* (which arm of    *)
(* eval::Expr they are), every cast_* of eval.rs is an explicit guard      *)
(* whose failure is the outcome crash(site, variant).                      *)
(*                                                                         *)
(* One clause per eval_* function; the dynamic scope stack, the            *)
(* evaluate-once / recursion marker of references, eager evaluation of     *)
(* arguments in the caller's scope and the environment-less lambdas are    *)
(* modelled as in the code.  Recursion depth is bounded by fuel;           *)
(* exhaustion is the outcome "diverge".                                    *)
(***************************************************************************)
EXTENDS Kinds

CONSTANT EvalFuel

\* variants: [k, op (for VariadicOp), i (inner variant of a Reference, as a sequence of 0 or 1)]
Vt(k)        == [k |-> k, op |-> "", i |-> <<>>, fn |-> <<>>]
VOp(o)       == [k |-> "VariadicOp", op |-> o, i |-> <<>>, fn |-> <<>>]
VRef(inner)  == [k |-> "Reference", op |-> "", i |-> <<inner>>, fn |-> <<>>]
VLam(m, p)   == [k |-> "Lambda", op |-> "", i |-> <<>>, fn |-> <<m, p>>]       \* external lambda: declaration p of module m
VLamInt      == [k |-> "Lambda", op |-> "concat", i |-> <<>>, fn |-> <<>>]
Crash(site, v) == [k |-> "CRASH", op |-> site, i |-> <<>>, fn |-> <<v.k, v.op, "">>]
Located(what) == [k |-> "ERROR", op |-> what, i |-> <<>>, fn |-> <<>>]
\* number literals keep their text (in `op`); as an HTTP status only 100..599 are in the domain - the literals the
\* families and the generator use are listed, every other number is outside
StatusTexts == {"100", "101", "200", "201", "202", "204", "301", "302", "304", "400", "401", "403", "404", "409", "422", "500", "501", "503", "599"}
StatusInDomain(v) == v.k # "Number" \/ v.op \in StatusTexts
Diverge      == [k |-> "DIVERGE", op |-> "", i |-> <<>>, fn |-> <<>>]

RECURSIVE Deref0(_)
Deref0(v) == IF v.k = "Reference" /\ v.i # <<>> THEN Deref0(v.i[1]) ELSE v

Bad(v) == v.k \in {"CRASH", "ERROR", "DIVERGE"}
CrashIn(site, v, m) == [k |-> "CRASH", op |-> site, i |-> <<>>, fn |-> <<Deref0(v).k, Deref0(v).op, m>>]   \* m: module of the consuming node

SchemaLike(v) == v.k \in {"Object", "Prim", "Array", "Uri", "VariadicOp", "Reference", "Relation", "Recursion"}
ContentLike(v) == v.k = "Content" \/ SchemaLike(v)
UriLike(v) == v.k \in {"Uri", "Relation"}

\* ---- the casts: TRUE when the cast succeeds ---------------------------------------------------
CastSchema(v) == SchemaLike(v)
RECURSIVE Deref(_)
Deref(v) == IF v.k = "Reference" THEN Deref(v.i[1]) ELSE v
CastContent(v)  == v.k = "Content" \/ SchemaLike(v)                     \* Reference is schema-like: taken before the unwrap
CastRanges(v)   == v.k = "Ranges" \/ ContentLike(v)
CastString(v)   == Deref(v).k = "String"
CastProperty(v) == Deref(v).k = "Property"
CastStatus(v)   == Deref(v).k \in {"HttpStatus", "Number"}
CastObject(v)   == Deref(v).k = "Object"
CastTransfer(v) == Deref(v).k = "Transfer"
CastRelation(v) == v.k = "Relation" \/ UriLike(v) \/ (v.k = "Reference" /\ Deref(v).k \in {"Relation", "Uri"})
CastUri(v)      == Deref(v).k \in {"Uri", "Relation"}
CastLambda(v)   == Deref(v).k = "Lambda"

Guard(ok, site, v, result) == IF Bad(v) THEN v ELSE IF ok THEN result ELSE Crash(site, v)

\* ---- evaluation ---------------------------------------------------------------------------------
\* ctx: [prog, res (module -> compile result), tables (module -> binding table)]
\* env: sequence of scopes, each a sequence of <<name, variant>>; stack: set of <<m, p>> references in progress
RECURSIVE LookupDyn(_, _, _)
LookupDyn(env, s, x) ==
  IF s = 0 THEN Crash("lookup_binding", Vt(x))
  ELSE LET sc == env[s]
           hit == {j \in 1..Len(sc) : sc[j][1] = x}
       IN IF hit # {} THEN sc[CHOOSE j \in hit : TRUE][2] ELSE LookupDyn(env, s - 1, x)

RECURSIVE Ev(_, _, _, _, _, _), EvAll(_, _, _, _, _, _, _, _)

\* first bad outcome among the guarded children, else the result
EvAll(ctx, m, nd, p, idxs, env, stack, fuel) ==
  \* evaluates children idxs (sequence of <<child index, cast name>>) left to right
  IF idxs = <<>> THEN Vt("OK")
  ELSE LET c == idxs[1]
           v == Ev(ctx, m, Append(p, c[1]), env, stack, fuel)
           ok == CASE c[2] = "schema" -> CastSchema(v) [] c[2] = "property" -> CastProperty(v)
                   [] c[2] = "ranges" -> CastRanges(v) [] c[2] = "content" -> CastContent(v)
                   [] c[2] = "string" -> CastString(v) [] c[2] = "object" -> CastObject(v)
                   [] c[2] = "status" -> CastStatus(v) [] c[2] = "transfer" -> CastTransfer(v)
                   [] c[2] = "uri" -> CastUri(v) [] c[2] = "relation" -> CastRelation(v)
                   [] OTHER -> TRUE
       IN IF Bad(v) THEN v
          ELSE IF ~ok THEN CrashIn("cast_" \o c[2], v, m)
          ELSE IF c[2] = "status" /\ ~StatusInDomain(Deref(v)) THEN Located("status-domain")         \* cast_http_status: a located error
          ELSE EvAll(ctx, m, nd, p, Tail(idxs), env, stack, fuel)

Ev(ctx, m, p, env, stack, fuel) ==
  IF fuel = 0 THEN Diverge
  ELSE
  LET nd == NodeAt(ctx.prog, m, p)
      all(idxs, result) == LET r == EvAll(ctx, m, nd, p, idxs, env, stack, fuel - 1) IN IF Bad(r) THEN r ELSE result
      kids(cast) == [j \in 1..Len(nd.a) |-> <<j, cast>>]
  IN
  CASE nd.k = "lit"  -> IF nd.s = "num" THEN [Vt("Number") EXCEPT !.op = nd.q] ELSE Vt(IF nd.s = "str" THEN "String" ELSE "HttpStatus")
    [] nd.k = "prim" -> IF nd.s = "uri" THEN Vt("Uri") ELSE Vt("Prim")
    [] nd.k = "obj"  -> all(kids("property"), Vt("Object"))
    [] nd.k = "prop" -> all(<<<<1, "schema">>>>, Vt("Property"))
    [] nd.k = "arr"  -> all(<<<<1, "schema">>>>, Vt("Array"))
    [] nd.k = "op"   -> IF nd.s = "::" THEN all(kids("ranges"), Vt("Ranges")) ELSE all(kids("schema"), VOp(nd.s))
    [] nd.k = "un"   -> all(<<<<1, "property">>>>, Vt("Property"))
    [] nd.k = "meta" -> Ev(ctx, m, Append(p, 1), env, stack, fuel - 1)
    [] nd.k = "cnt"  ->
         \* body first, then the metas in order
         all((IF Len(nd.a) > nd.n THEN <<<<nd.n + 1, "schema">>>> ELSE <<>>)
             \o [j \in 1..nd.n |-> <<j, CASE nd.a[j].s = "media" -> "string" [] nd.a[j].s = "headers" -> "object" [] OTHER -> "status">>],
             Vt("Content"))
    [] nd.k = "uvar" -> Ev(ctx, m, Append(p, 1), env, stack, fuel - 1)
    [] nd.k = "seg"  -> Vt("OK")
    [] nd.k = "uri"  ->
         LET nseg == Len(nd.a) - nd.n
             vs == SelectSeq([j \in 1..nseg |-> j], LAMBDA j : nd.a[j].k = "uvar")
         IN all([j \in 1..Len(vs) |-> <<vs[j], "property">>] \o (IF nd.n = 1 THEN <<<<Len(nd.a), "object">>>> ELSE <<>>), Vt("Uri"))
    [] nd.k = "rel"  -> all(<<<<1, "uri">>>> \o [j \in 1..(Len(nd.a) - 1) |-> <<j + 1, "transfer">>], Vt("Relation"))
    [] nd.k = "xfer" ->
         \* domain, then range, then params
         all((IF nd.n \in {2, 3} THEN <<<<(IF nd.n = 3 THEN 2 ELSE 1), "content">>>> ELSE <<>>)
             \o <<<<Len(nd.a), "ranges">>>>
             \o (IF nd.n \in {1, 3} THEN <<<<1, "object">>>> ELSE <<>>), Vt("Transfer"))
    [] nd.k = "res"  -> all(<<<<1, "relation">>>>, Vt("OK"))
    [] nd.k = "rec"  ->
         LET v == Ev(ctx, m, Append(p, 1), Append(env, <<<<nd.s, Vt("Recursion")>>>>), stack, fuel - 1)
         IN IF Bad(v) THEN v
            ELSE IF ~CastSchema(v) THEN CrashIn("cast_schema", v, m)
            ELSE VRef(v)
    [] nd.k = "var"  ->
         LET b == (CHOOSE r \in ctx.tables[m] : r.use = p).b IN
         CASE b.kind = "internal" -> VLamInt
           [] b.kind \in {"param", "rec"} -> LookupDyn(env, Len(env), nd.s)      \* eval_binding: by NAME on the dynamic stack
           [] OTHER ->
                LET d == ctx.prog.mods[b.m][b.p[1]] IN
                IF d.n > 0 THEN VLam(b.m, b.p)
                ELSE IF d.q = "@" \/ b.p \in ctx.res[b.m].rec
                THEN IF <<b.m, b.p>> \in stack THEN Vt("Recursion")
                     ELSE LET v == Ev(ctx, b.m, <<b.p[1], 1>>, env, stack \cup {<<b.m, b.p>>}, fuel - 1)
                          IN IF Bad(v) THEN v
                             ELSE IF ~CastSchema(v) THEN CrashIn("cast_schema", v, b.m)    \* eval_program registers it as a schema
                             ELSE VRef(v)
                ELSE Ev(ctx, b.m, <<b.p[1], 1>>, env, stack, fuel - 1)
    [] nd.k = "app"  ->
         LET f == Ev(ctx, m, Append(p, 1), env, stack, fuel - 1) IN
         IF Bad(f) THEN f
         ELSE IF ~CastLambda(f) THEN CrashIn("cast_lambda", f, m)
         ELSE LET lam == Deref(f)
                  nargs == Len(nd.a) - 1
              IN IF lam.op = "concat"
                 THEN all([j \in 1..nargs |-> <<j + 1, "uri">>], Vt("Uri"))
                 ELSE LET d == ctx.prog.mods[lam.fn[1]][lam.fn[2][1]]
                          argv == [j \in 1..nargs |-> Ev(ctx, m, Append(p, j + 1), env, stack, fuel - 1)]
                          k == IF nargs < d.n THEN nargs ELSE d.n
                      IN IF \E j \in 1..nargs : Bad(argv[j]) THEN argv[CHOOSE j \in 1..nargs : Bad(argv[j])]
                         ELSE Ev(ctx, lam.fn[1], <<lam.fn[2][1], d.n + 1>>,
                                 Append(env, [j \in 1..k |-> <<d.a[j].s, argv[j]>>]), stack, fuel - 1)
    [] OTHER -> Crash("unexpected node", Vt(nd.k))

\* ---- a whole program: the resources of the main module, then the registered references ----------
RECURSIVE EvRes(_, _, _)
EvRes(ctx, i, fuel) ==
  LET stmts == ctx.prog.mods[ctx.prog.main] IN
  IF i > Len(stmts) THEN Vt("OK")
  ELSE IF stmts[i].k # "res" THEN EvRes(ctx, i + 1, fuel)
  ELSE LET v == Ev(ctx, ctx.prog.main, <<i>>, <<>>, {}, fuel) IN IF Bad(v) THEN v ELSE EvRes(ctx, i + 1, fuel)

Outcome(prog) ==
  LET c == Compile(prog) IN
  IF ~c.ok THEN [k |-> "REJECTED", op |-> c.phase, i |-> <<>>, fn |-> <<>>]
  ELSE EvRes([prog |-> prog, res |-> c.res,
              tables |-> [m \in DOMAIN c.res |-> RefResolve(prog, m).table]], 1, EvalFuel)

\* type soundness of the pipeline on one program
Sound(prog) == Outcome(prog).k \in {"REJECTED", "OK", "ERROR"}
=============================================================================
