------------------------------- MODULE Resolve -------------------------------
(***************************************************************************)
(* Name resolution (oal-compiler/src/resolve.rs, env.rs).                  *)
(*                                                                         *)
(* Two definitions of the binding relation:                                *)
(*  - RefTable / RefResolve: declarative - the innermost enclosing binder  *)
(*    of the name: rec binder, parameter, declaration of the module        *)
(*    (regardless of order), import (by qualifier; later import wins),     *)
(*    built-in; errors NotInScope and InvalidIdentifier (duplicate         *)
(*    declaration);                                                        *)
(*  - OpResolve: a state machine with the steps of resolve(): import the   *)
(*    standard library, declare imports, declare declarations, then the    *)
(*    pre-order traversal with Open/Define/Close on the scope stack and    *)
(*    the recording of edges of the definition graph.                      *)
(* DeclsShadowImports selects the design: TRUE puts built-ins, imports and *)
(* declarations in three nested scopes (the property's precedence);        *)
(* FALSE is the single shared root scope (a declaration colliding with an  *)
(* import or a built-in is an InvalidIdentifier error).                    *)
(***************************************************************************)
EXTENDS Binding

CONSTANTS DeclsShadowImports,
          Families          \* the set of programs to resolve (see ResolveMC.tla)

\* ---- the implementation's steps ----------------------------------------------------------------
VARIABLES prog, mod, phase, env, idx, table, err, current, edges
vars == <<prog, mod, phase, env, idx, table, err, current, edges>>

\* pre-order traversal events of the statements of a module
RECURSIVE Ev(_, _)
Ev(nd, path) ==
  <<[t |-> "S", nd |-> nd, path |-> path]>>
  \o (IF nd.k = "decl" THEN Ev(Rhs(nd), Append(path, nd.n + 1))
      ELSE LET RECURSIVE Kids(_)
               Kids(i) == IF i > Len(nd.a) THEN <<>> ELSE Ev(nd.a[i], Append(path, i)) \o Kids(i + 1)
           IN Kids(1))
  \o <<[t |-> "E", nd |-> nd, path |-> path]>>

RECURSIVE EvStmts(_, _)
EvStmts(stmts, i) == IF i > Len(stmts) THEN <<>> ELSE Ev(stmts[i], <<i>>) \o EvStmts(stmts, i + 1)
Events == EvStmts(prog.mods[mod], 1)

\* scopes: sequence of scopes, each a sequence of entries with unique (q, x) keys
Declare(scope, e) == SelectSeq(scope, LAMBDA o : ~(o.q = e.q /\ o.x = e.x)) \o <<e>>
Has(scope, q, x) == \E i \in 1..Len(scope) : scope[i].q = q /\ scope[i].x = x
DeclareTop(stack, e) == [stack EXCEPT ![Len(stack)] = Declare(@, e)]
RECURSIVE DeclareAll(_, _, _)
DeclareAll(stack, es, i) == IF i > Len(es) THEN stack ELSE DeclareAll(DeclareTop(stack, es[i]), es, i + 1)

RECURSIVE LookupStack(_, _, _, _)
LookupStack(stack, s, q, x) ==       \* Env::lookup: innermost scope first
  IF s = 0 THEN NoB
  ELSE IF Has(stack[s], q, x) THEN LookupEnv(stack[s], q, x) ELSE LookupStack(stack, s - 1, q, x)

Init ==
  /\ prog \in Families
  /\ mod \in DOMAIN prog.mods
  /\ phase = "stdlib" /\ env = <<>> /\ idx = 1 /\ table = {} /\ err = "" /\ current = NoB /\ edges = {}

Stdlib ==
  /\ phase = "stdlib"
  /\ env' = IF DeclsShadowImports THEN <<BuiltinEntries, <<>>>> ELSE <<BuiltinEntries>>
  /\ phase' = "imports" /\ idx' = 1
  /\ UNCHANGED <<prog, mod, table, err, current, edges>>

ImportStep ==
  /\ phase = "imports"
  /\ LET us == Uses(prog.mods[mod]) IN
     IF idx <= Len(us)
     THEN /\ env' = DeclareAll(env, DeclEntries(prog, us[idx].s, us[idx].q), 1)
          /\ idx' = idx + 1 /\ UNCHANGED phase
     ELSE /\ env' = IF DeclsShadowImports THEN Append(env, <<>>) ELSE env
          /\ phase' = "decls" /\ idx' = 1
  /\ UNCHANGED <<prog, mod, table, err, current, edges>>

DeclStep ==
  /\ phase = "decls"
  /\ LET ds == DeclEntries(prog, mod, "") IN
     IF idx <= Len(ds)
     THEN IF Has(env[Len(env)], "", ds[idx].x)
          THEN err' = "InvalidIdentifier" /\ phase' = "done" /\ UNCHANGED <<env, idx>>
          ELSE env' = DeclareTop(env, ds[idx]) /\ idx' = idx + 1 /\ UNCHANGED <<phase, err>>
     ELSE phase' = "walk" /\ idx' = 1 /\ UNCHANGED <<env, err>>
  /\ UNCHANGED <<prog, mod, table, current, edges>>

WalkStep ==
  /\ phase = "walk"
  /\ LET evs == Events IN
     IF idx > Len(evs)
     THEN phase' = "done" /\ UNCHANGED <<env, idx, table, err, current, edges>>
     ELSE LET e == evs[idx] IN
          CASE e.t = "S" /\ e.nd.k = "decl" ->
                 /\ env' = Append(env, [j \in 1..e.nd.n |-> E("", e.nd.a[j].s, B(mod, Append(e.path, j), "param"))])
                 /\ current' = B(mod, e.path, "decl")
                 /\ idx' = idx + 1 /\ UNCHANGED <<phase, table, err, edges>>
            [] e.t = "E" /\ e.nd.k = "decl" ->
                 /\ env' = SubSeq(env, 1, Len(env) - 1) /\ current' = NoB
                 /\ idx' = idx + 1 /\ UNCHANGED <<phase, table, err, edges>>
            [] e.t = "S" /\ e.nd.k = "rec" ->
                 /\ env' = Append(env, <<E("", e.nd.s, B(mod, e.path, "rec"))>>)
                 /\ idx' = idx + 1 /\ UNCHANGED <<phase, table, err, current, edges>>
            [] e.t = "E" /\ e.nd.k = "rec" ->
                 /\ env' = SubSeq(env, 1, Len(env) - 1)
                 /\ idx' = idx + 1 /\ UNCHANGED <<phase, table, err, current, edges>>
            [] e.t = "S" /\ e.nd.k = "var" ->
                 LET b == LookupStack(env, Len(env), e.nd.q, e.nd.s) IN
                 IF b.kind = "none"
                 THEN err' = "NotInScope" /\ phase' = "done" /\ UNCHANGED <<env, idx, table, current, edges>>
                 ELSE /\ table' = table \cup {[use |-> e.path, b |-> b]}
                      /\ edges' = IF current.kind # "none" /\ b.kind # "internal"
                                  THEN edges \cup {<<current, b>>} ELSE edges
                      /\ idx' = idx + 1 /\ UNCHANGED <<phase, env, err, current>>
            [] OTHER -> idx' = idx + 1 /\ UNCHANGED <<phase, env, table, err, current, edges>>
  /\ UNCHANGED <<prog, mod>>

Done == phase = "done" /\ UNCHANGED vars

Next == Stdlib \/ ImportStep \/ DeclStep \/ WalkStep \/ Done
Spec == Init /\ [][Next]_vars /\ WF_vars(Stdlib \/ ImportStep \/ DeclStep \/ WalkStep)

\* ---- properties ----------------------------------------------------------------------------
OpMatchesRef ==
  phase = "done" =>
    LET r == RefResolve(prog, mod) IN
    /\ err = r.err
    /\ err = "" => table = r.table

\* scopes are balanced: the traversal ends with the scopes it started with
Balanced == (phase = "done" /\ err = "") => Len(env) = (IF DeclsShadowImports THEN 3 ELSE 1)

\* edges of the definition graph start at declarations of this module only
EdgesFromDecls == \A e \in edges : e[1].kind = "decl" /\ e[1].m = mod

Terminates == <>(phase = "done")
=============================================================================
