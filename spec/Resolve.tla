------------------------------- MODULE Resolve -------------------------------
(***************************************************************************)
(* Name resolution (oal-compiler/src/resolve.rs, env.rs).                  *)
(*                                                                         *)
(* Two definitions of the binding relation:                                *)
(*  - RefTable / RefResolve: declarative - the innermost enclosing binder  *)
(*    of the name: rec binder, parameter, declaration of the module        *)
(*    (regardless of order), import (by qualifier; later import wins),     *)
(*    built-in; errors NotInScope and InvalidIdentifier (duplicate         *)
(*    declaration);                                                        *)
(*  - OpResolve: a state machine with the steps of resolve(): import the   *)
(*    standard library, declare imports, declare declarations, then the    *)
(*    pre-order traversal with Open/Define/Close on the scope stack and    *)
(*    the recording of edges of the definition graph.                      *)
(* DeclsShadowImports selects the design: TRUE puts built-ins, imports and *)
(* declarations in three nested scopes (the property's precedence);        *)
(* FALSE is the single shared root scope (a declaration colliding with an  *)
(* import or a built-in is an InvalidIdentifier error).                    *)
(***************************************************************************)
EXTENDS Ast

CONSTANTS DeclsShadowImports,
          Families          \* the set of programs to resolve (see ResolveMC.tla)

Builtins == {"concat"}

B(m, p, kd) == [m |-> m, p |-> p, kind |-> kd]
NoB == B("", <<>>, "none")
Internal(x) == B("", <<>>, "internal")
E(q, x, b) == [q |-> q, x |-> x, b |-> b]

\* ---- declarative reference ---------------------------------------------------------------
\* an environment is a sequence of entries; the last matching entry wins
RECURSIVE LookupSeq(_, _, _, _)
LookupSeq(env, i, q, x) ==
  IF i = 0 THEN NoB
  ELSE IF env[i].q = q /\ env[i].x = x THEN env[i].b ELSE LookupSeq(env, i - 1, q, x)
LookupEnv(env, q, x) == LookupSeq(env, Len(env), q, x)

DeclEntries(prog, m, q) ==
  LET ds == SelectSeq([i \in 1..Len(prog.mods[m]) |-> i], LAMBDA i : prog.mods[m][i].k = "decl")
  IN [j \in 1..Len(ds) |-> E(q, prog.mods[m][ds[j]].s, B(m, <<ds[j]>>, "decl"))]

RECURSIVE ImportEntries(_, _, _)
ImportEntries(prog, us, j) ==
  IF j > Len(us) THEN <<>>
  ELSE DeclEntries(prog, us[j].s, us[j].q) \o ImportEntries(prog, us, j + 1)

BuiltinEntries == LET bs == CHOOSE s \in [1..Cardinality(Builtins) -> Builtins] : \A a, b \in DOMAIN s : a # b => s[a] # s[b]
                  IN [j \in 1..Len(bs) |-> E("", bs[j], Internal(bs[j]))]

RootEnv(prog, m) == BuiltinEntries \o ImportEntries(prog, Uses(prog.mods[m]), 1) \o DeclEntries(prog, m, "")

RECURSIVE WalkE(_, _, _, _)
WalkE(nd, path, env, m) ==
  IF nd.k = "var" THEN {[use |-> path, b |-> LookupEnv(env, nd.q, nd.s)]}
  ELSE IF nd.k = "rec"
  THEN WalkE(nd.a[1], Append(path, 1), Append(env, E("", nd.s, B(m, path, "rec"))), m)
  ELSE UNION {WalkE(nd.a[i], Append(path, i), env, m) : i \in 1..Len(nd.a)}

WalkStmt(st, i, env, m) ==
  IF st.k = "decl"
  THEN WalkE(Rhs(st), <<i, st.n + 1>>, env \o [j \in 1..st.n |-> E("", st.a[j].s, B(m, <<i, j>>, "param"))], m)
  ELSE IF st.k = "res" THEN WalkE(st.a[1], <<i, 1>>, env, m)
  ELSE {}

RefTable(prog, m) == UNION {WalkStmt(prog.mods[m][i], i, RootEnv(prog, m), m) : i \in 1..Len(prog.mods[m])}

DuplicateDecl(prog, m) ==
  LET ds == Decls(prog.mods[m]) IN \E a, b \in 1..Len(ds) : a < b /\ ds[a].s = ds[b].s

\* what resolution of module m must answer
RefResolve(prog, m) ==
  IF DuplicateDecl(prog, m) THEN [err |-> "InvalidIdentifier", table |-> {}]
  ELSE LET t == RefTable(prog, m) IN
       IF \E r \in t : r.b.kind = "none" THEN [err |-> "NotInScope", table |-> {}]
       ELSE [err |-> "", table |-> t]

\* ---- the implementation's steps ----------------------------------------------------------------
VARIABLES prog, mod, phase, env, idx, table, err, current, edges
vars == <<prog, mod, phase, env, idx, table, err, current, edges>>

\* pre-order traversal events of the statements of a module
RECURSIVE Ev(_, _)
Ev(nd, path) ==
  <<[t |-> "S", nd |-> nd, path |-> path]>>
  \o (IF nd.k = "decl" THEN Ev(Rhs(nd), Append(path, nd.n + 1))
      ELSE LET RECURSIVE Kids(_)
               Kids(i) == IF i > Len(nd.a) THEN <<>> ELSE Ev(nd.a[i], Append(path, i)) \o Kids(i + 1)
           IN Kids(1))
  \o <<[t |-> "E", nd |-> nd, path |-> path]>>

RECURSIVE EvStmts(_, _)
EvStmts(stmts, i) == IF i > Len(stmts) THEN <<>> ELSE Ev(stmts[i], <<i>>) \o EvStmts(stmts, i + 1)
Events == EvStmts(prog.mods[mod], 1)

\* scopes: sequence of scopes, each a sequence of entries with unique (q, x) keys
Declare(scope, e) == SelectSeq(scope, LAMBDA o : ~(o.q = e.q /\ o.x = e.x)) \o <<e>>
Has(scope, q, x) == \E i \in 1..Len(scope) : scope[i].q = q /\ scope[i].x = x
DeclareTop(stack, e) == [stack EXCEPT ![Len(stack)] = Declare(@, e)]
RECURSIVE DeclareAll(_, _, _)
DeclareAll(stack, es, i) == IF i > Len(es) THEN stack ELSE DeclareAll(DeclareTop(stack, es[i]), es, i + 1)

RECURSIVE LookupStack(_, _, _, _)
LookupStack(stack, s, q, x) ==       \* Env::lookup: innermost scope first
  IF s = 0 THEN NoB
  ELSE IF Has(stack[s], q, x) THEN LookupEnv(stack[s], q, x) ELSE LookupStack(stack, s - 1, q, x)

Init ==
  /\ prog \in Families
  /\ mod \in DOMAIN prog.mods
  /\ phase = "stdlib" /\ env = <<>> /\ idx = 1 /\ table = {} /\ err = "" /\ current = NoB /\ edges = {}

Stdlib ==
  /\ phase = "stdlib"
  /\ env' = IF DeclsShadowImports THEN <<BuiltinEntries, <<>>>> ELSE <<BuiltinEntries>>
  /\ phase' = "imports" /\ idx' = 1
  /\ UNCHANGED <<prog, mod, table, err, current, edges>>

ImportStep ==
  /\ phase = "imports"
  /\ LET us == Uses(prog.mods[mod]) IN
     IF idx <= Len(us)
     THEN /\ env' = DeclareAll(env, DeclEntries(prog, us[idx].s, us[idx].q), 1)
          /\ idx' = idx + 1 /\ UNCHANGED phase
     ELSE /\ env' = IF DeclsShadowImports THEN Append(env, <<>>) ELSE env
          /\ phase' = "decls" /\ idx' = 1
  /\ UNCHANGED <<prog, mod, table, err, current, edges>>

DeclStep ==
  /\ phase = "decls"
  /\ LET ds == DeclEntries(prog, mod, "") IN
     IF idx <= Len(ds)
     THEN IF Has(env[Len(env)], "", ds[idx].x)
          THEN err' = "InvalidIdentifier" /\ phase' = "done" /\ UNCHANGED <<env, idx>>
          ELSE env' = DeclareTop(env, ds[idx]) /\ idx' = idx + 1 /\ UNCHANGED <<phase, err>>
     ELSE phase' = "walk" /\ idx' = 1 /\ UNCHANGED <<env, err>>
  /\ UNCHANGED <<prog, mod, table, current, edges>>

WalkStep ==
  /\ phase = "walk"
  /\ LET evs == Events IN
     IF idx > Len(evs)
     THEN phase' = "done" /\ UNCHANGED <<env, idx, table, err, current, edges>>
     ELSE LET e == evs[idx] IN
          CASE e.t = "S" /\ e.nd.k = "decl" ->
                 /\ env' = Append(env, [j \in 1..e.nd.n |-> E("", e.nd.a[j].s, B(mod, Append(e.path, j), "param"))])
                 /\ current' = B(mod, e.path, "decl")
                 /\ idx' = idx + 1 /\ UNCHANGED <<phase, table, err, edges>>
            [] e.t = "E" /\ e.nd.k = "decl" ->
                 /\ env' = SubSeq(env, 1, Len(env) - 1) /\ current' = NoB
                 /\ idx' = idx + 1 /\ UNCHANGED <<phase, table, err, edges>>
            [] e.t = "S" /\ e.nd.k = "rec" ->
                 /\ env' = Append(env, <<E("", e.nd.s, B(mod, e.path, "rec"))>>)
                 /\ idx' = idx + 1 /\ UNCHANGED <<phase, table, err, current, edges>>
            [] e.t = "E" /\ e.nd.k = "rec" ->
                 /\ env' = SubSeq(env, 1, Len(env) - 1)
                 /\ idx' = idx + 1 /\ UNCHANGED <<phase, table, err, current, edges>>
            [] e.t = "S" /\ e.nd.k = "var" ->
                 LET b == LookupStack(env, Len(env), e.nd.q, e.nd.s) IN
                 IF b.kind = "none"
                 THEN err' = "NotInScope" /\ phase' = "done" /\ UNCHANGED <<env, idx, table, current, edges>>
                 ELSE /\ table' = table \cup {[use |-> e.path, b |-> b]}
                      /\ edges' = IF current.kind # "none" /\ b.kind # "internal"
                                  THEN edges \cup {<<current, b>>} ELSE edges
                      /\ idx' = idx + 1 /\ UNCHANGED <<phase, env, err, current>>
            [] OTHER -> idx' = idx + 1 /\ UNCHANGED <<phase, env, table, err, current, edges>>
  /\ UNCHANGED <<prog, mod>>

Done == phase = "done" /\ UNCHANGED vars

Next == Stdlib \/ ImportStep \/ DeclStep \/ WalkStep \/ Done
Spec == Init /\ [][Next]_vars /\ WF_vars(Stdlib \/ ImportStep \/ DeclStep \/ WalkStep)

\* ---- properties ----------------------------------------------------------------------------
OpMatchesRef ==
  phase = "done" =>
    LET r == RefResolve(prog, mod) IN
    /\ err = r.err
    /\ err = "" => table = r.table

\* scopes are balanced: the traversal ends with the scopes it started with
Balanced == (phase = "done" /\ err = "") => Len(env) = (IF DeclsShadowImports THEN 3 ELSE 1)

\* edges of the definition graph start at declarations of this module only
EdgesFromDecls == \A e \in edges : e[1].kind = "decl" /\ e[1].m = mod

Terminates == <>(phase = "done")
=============================================================================
