---- MODULE Frontends_TTrace_1790347103 ----
EXTENDS Sequences, TLCExt, Frontends, Toolbox, Naturals, TLC

_expression ==
    LET Frontends_TEExpression == INSTANCE Frontends_TEExpression
    IN Frontends_TEExpression!expression
----

_trace ==
    LET Frontends_TETrace == INSTANCE Frontends_TETrace
    IN Frontends_TETrace!trace
----

_inv ==
    ~(
        TLCGet("level") = Len(_TETrace)
        /\
        exit = (0)
        /\
        wasm = ("none")
        /\
        pc = ("exited")
        /\
        eff = ("D")
        /\
        viaConfig = ("both")
        /\
        lsp = ("none")
        /\
        targetExisted = (FALSE)
        /\
        located = (FALSE)
        /\
        hasBase = (FALSE)
        /\
        cls = ("ok")
        /\
        decoy = ("new")
        /\
        target = ("none")
    )
----

_init ==
    /\ viaConfig = _TETrace[1].viaConfig
    /\ exit = _TETrace[1].exit
    /\ decoy = _TETrace[1].decoy
    /\ wasm = _TETrace[1].wasm
    /\ targetExisted = _TETrace[1].targetExisted
    /\ located = _TETrace[1].located
    /\ pc = _TETrace[1].pc
    /\ hasBase = _TETrace[1].hasBase
    /\ cls = _TETrace[1].cls
    /\ lsp = _TETrace[1].lsp
    /\ target = _TETrace[1].target
    /\ eff = _TETrace[1].eff
----

_next ==
    /\ \E i,j \in DOMAIN _TETrace:
        /\ \/ /\ j = i + 1
              /\ i = TLCGet("level")
        /\ viaConfig  = _TETrace[i].viaConfig
        /\ viaConfig' = _TETrace[j].viaConfig
        /\ exit  = _TETrace[i].exit
        /\ exit' = _TETrace[j].exit
        /\ decoy  = _TETrace[i].decoy
        /\ decoy' = _TETrace[j].decoy
        /\ wasm  = _TETrace[i].wasm
        /\ wasm' = _TETrace[j].wasm
        /\ targetExisted  = _TETrace[i].targetExisted
        /\ targetExisted' = _TETrace[j].targetExisted
        /\ located  = _TETrace[i].located
        /\ located' = _TETrace[j].located
        /\ pc  = _TETrace[i].pc
        /\ pc' = _TETrace[j].pc
        /\ hasBase  = _TETrace[i].hasBase
        /\ hasBase' = _TETrace[j].hasBase
        /\ cls  = _TETrace[i].cls
        /\ cls' = _TETrace[j].cls
        /\ lsp  = _TETrace[i].lsp
        /\ lsp' = _TETrace[j].lsp
        /\ target  = _TETrace[i].target
        /\ target' = _TETrace[j].target
        /\ eff  = _TETrace[i].eff
        /\ eff' = _TETrace[j].eff

\* Uncomment the ASSUME below to write the states of the error trace
\* to the given file in Json format. Note that you can pass any tuple
\* to `JsonSerialize`. For example, a sub-sequence of _TETrace.
    \* ASSUME
    \*     LET J == INSTANCE Json
    \*         IN J!JsonSerialize("Frontends_TTrace_1790347103.json", _TETrace)

=============================================================================

 Note that you can extract this module `Frontends_TEExpression`
  to a dedicated file to reuse `expression` (the module in the 
  dedicated `Frontends_TEExpression.tla` file takes precedence 
  over the module `Frontends_TEExpression` below).

---- MODULE Frontends_TEExpression ----
EXTENDS Sequences, TLCExt, Frontends, Toolbox, Naturals, TLC

expression == 
    [
        \* To hide variables of the `Frontends` spec from the error trace,
        \* remove the variables below.  The trace will be written in the order
        \* of the fields of this record.
        viaConfig |-> viaConfig
        ,exit |-> exit
        ,decoy |-> decoy
        ,wasm |-> wasm
        ,targetExisted |-> targetExisted
        ,located |-> located
        ,pc |-> pc
        ,hasBase |-> hasBase
        ,cls |-> cls
        ,lsp |-> lsp
        ,target |-> target
        ,eff |-> eff
        
        \* Put additional constant-, state-, and action-level expressions here:
        \* ,_stateNumber |-> _TEPosition
        \* ,_viaConfigUnchanged |-> viaConfig = viaConfig'
        
        \* Format the `viaConfig` variable as Json value.
        \* ,_viaConfigJson |->
        \*     LET J == INSTANCE Json
        \*     IN J!ToJson(viaConfig)
        
        \* Lastly, you may build expressions over arbitrary sets of states by
        \* leveraging the _TETrace operator.  For example, this is how to
        \* count the number of times a spec variable changed up to the current
        \* state in the trace.
        \* ,_viaConfigModCount |->
        \*     LET F[s \in DOMAIN _TETrace] ==
        \*         IF s = 1 THEN 0
        \*         ELSE IF _TETrace[s].viaConfig # _TETrace[s-1].viaConfig
        \*             THEN 1 + F[s-1] ELSE F[s-1]
        \*     IN F[_TEPosition - 1]
    ]

=============================================================================



Parsing and semantic processing can take forever if the trace below is long.
 In this case, it is advised to uncomment the module below to deserialize the
 trace from a generated binary file.

\*
\*---- MODULE Frontends_TETrace ----
\*EXTENDS IOUtils, Frontends, TLC
\*
\*trace == IODeserialize("Frontends_TTrace_1790347103.bin", TRUE)
\*
\*=============================================================================
\*

---- MODULE Frontends_TETrace ----
EXTENDS Frontends, TLC

trace == 
    <<
    ([exit |-> -1,wasm |-> "none",pc |-> "config",eff |-> "?",viaConfig |-> "both",lsp |-> "none",targetExisted |-> FALSE,located |-> FALSE,hasBase |-> FALSE,cls |-> "ok",decoy |-> "none",target |-> "none"]),
    ([exit |-> -1,wasm |-> "none",pc |-> "load",eff |-> "D",viaConfig |-> "both",lsp |-> "none",targetExisted |-> FALSE,located |-> FALSE,hasBase |-> FALSE,cls |-> "ok",decoy |-> "none",target |-> "none"]),
    ([exit |-> -1,wasm |-> "none",pc |-> "eval",eff |-> "D",viaConfig |-> "both",lsp |-> "none",targetExisted |-> FALSE,located |-> FALSE,hasBase |-> FALSE,cls |-> "ok",decoy |-> "none",target |-> "none"]),
    ([exit |-> -1,wasm |-> "none",pc |-> "base",eff |-> "D",viaConfig |-> "both",lsp |-> "none",targetExisted |-> FALSE,located |-> FALSE,hasBase |-> FALSE,cls |-> "ok",decoy |-> "none",target |-> "none"]),
    ([exit |-> -1,wasm |-> "none",pc |-> "serialize",eff |-> "D",viaConfig |-> "both",lsp |-> "none",targetExisted |-> FALSE,located |-> FALSE,hasBase |-> FALSE,cls |-> "ok",decoy |-> "none",target |-> "none"]),
    ([exit |-> -1,wasm |-> "none",pc |-> "write",eff |-> "D",viaConfig |-> "both",lsp |-> "none",targetExisted |-> FALSE,located |-> FALSE,hasBase |-> FALSE,cls |-> "ok",decoy |-> "none",target |-> "none"]),
    ([exit |-> 0,wasm |-> "none",pc |-> "exited",eff |-> "D",viaConfig |-> "both",lsp |-> "none",targetExisted |-> FALSE,located |-> FALSE,hasBase |-> FALSE,cls |-> "ok",decoy |-> "new",target |-> "none"])
    >>
----


=============================================================================

---- CONFIG Frontends_TTrace_1790347103 ----
CONSTANTS
    OptionsWin = FALSE

INVARIANT
    _inv

CHECK_DEADLOCK
    \* CHECK_DEADLOCK off because of PROPERTY or INVARIANT above.
    FALSE

INIT
    _init

NEXT
    _next

CONSTANT
    _TETrace <- _trace

ALIAS
    _expression
=============================================================================
\* Generated on Fri Sep 25 14:38:23 UTC 2026