------------------------------ MODULE Families ------------------------------
(***************************************************************************)
(* Families of programs shared by the specifications of the compiler       *)
(* phases (Kinds, EvalAbs, Den): PosShape - every consuming position of    *)
(* the language x every shape of value x every indirection through which   *)
(* the value can be supplied (direct, let, @let, identity function,        *)
(* imported let, imported identity function).                              *)
(***************************************************************************)
EXTENDS Ast

Root == Uri(<<Seg("")>>)
C0 == Cnt(<<>>, <<>>)
OA == Obj(<<Prop("a", Prim("num"))>>)
GetTo(rng) == Res(Rel(Root, <<Xfer("get", rng)>>))
Body(e) == GetTo(Cnt(<<>>, <<e>>))

Shape(sn) ==
  CASE sn = "num" -> Prim("num") [] sn = "str" -> Prim("str") [] sn = "uriprim" -> Prim("uri")
    [] sn = "obj" -> OA [] sn = "obj0" -> Obj(<<>>) [] sn = "arr" -> Arr(Prim("str"))
    [] sn = "prop" -> Prop("p", Prim("num")) [] sn = "propreq" -> PropReq("p", Prim("int"))
    [] sn = "unopt" -> Un("?", Prop("p", Prim("num")))
    [] sn = "join" -> Op("&", <<OA, Obj(<<Prop("b", Prim("str"))>>)>>)
    [] sn = "any" -> Op("~", <<Prim("num"), OA>>)
    [] sn = "sum" -> Op("|", <<Prim("num"), Prim("str")>>)
    [] sn = "sumobj" -> Op("|", <<OA, Obj(<<>>)>>)
    \* sums whose operands are URIs / relations: the sum takes the kind of its operands
    [] sn = "sumuri" -> Op("|", <<Uri(<<Seg("a")>>), Uri(<<Seg("b")>>)>>)
    [] sn = "sumrel" -> Op("|", <<Rel(Uri(<<Seg("r")>>), <<Xfer("get", C0)>>), Rel(Uri(<<Seg("s")>>), <<Xfer("get", C0)>>)>>)
    [] sn = "cnt" -> Cnt(<<>>, <<Prim("num")>>) [] sn = "cnt0" -> C0
    [] sn = "cntfull" -> Cnt(<<Meta("status", LitNum("200")), Meta("media", LitStr("a/b"))>>, <<OA>>)
    [] sn = "ranges" -> Op("::", <<Cnt(<<>>, <<Prim("num")>>), Cnt(<<Meta("status", LitNum("404"))>>, <<Prim("str")>>)>>)
    [] sn = "urit" -> Uri(<<Seg("a"), Seg("b")>>)
    [] sn = "urivar" -> Uri(<<Seg("a"), UVar(Prop("id", Prim("int")))>>)
    [] sn = "rel" -> Rel(Uri(<<Seg("r")>>), <<Xfer("get", C0)>>)
    [] sn = "xfer" -> Xfer("get", C0)
    [] sn = "litnum" -> LitNum("200") [] sn = "litstr" -> LitStr("a/b") [] sn = "litstatus" -> LitStatus("4XX")
    \* numbers outside the domain of HTTP statuses (a located error where a status is wanted, a number elsewhere)
    [] sn = "litnum0" -> LitNum("0") [] sn = "litnum42" -> LitNum("42") [] sn = "litnum99" -> LitNum("99") [] sn = "litnum600" -> LitNum("600")
    [] sn = "litnum100" -> LitNum("100") [] sn = "litnum599" -> LitNum("599")
    \* ... and beyond the widths of the integer types a status passes through (16, 32, 64 bits)
    [] sn = "litnum65535" -> LitNum("65535") [] sn = "litnum65536" -> LitNum("65536")
    [] sn = "litnum2p32" -> LitNum("4294967296") [] sn = "litnum2p64m1" -> LitNum("18446744073709551615")
    [] sn = "rec" -> Rec("x", Obj(<<Prop("k", Arr(Var("x")))>>))

Pos(pn, h) ==
  CASE pn = "body"     -> <<Body(h)>>
    [] pn = "range"    -> <<GetTo(h)>>
    [] pn = "domain"   -> <<Res(Rel(Root, <<XferD("put", h, C0)>>))>>
    [] pn = "headers"  -> <<GetTo(Cnt(<<Meta("headers", h)>>, <<Obj(<<>>)>>))>>
    [] pn = "media"    -> <<GetTo(Cnt(<<Meta("media", h)>>, <<Obj(<<>>)>>))>>
    [] pn = "status"   -> <<GetTo(Cnt(<<Meta("status", h)>>, <<Obj(<<>>)>>))>>
    [] pn = "reluri"   -> <<Res(Rel(h, <<Xfer("get", C0)>>))>>
    [] pn = "res"      -> <<Res(h)>>
    [] pn = "xferlist" -> <<Res(Rel(Root, <<h>>))>>
    [] pn = "proprhs"  -> <<Body(Obj(<<Prop("p", h)>>))>>
    [] pn = "objitem"  -> <<Body(Obj(<<h>>))>>
    [] pn = "arritem"  -> <<Body(Arr(h))>>
    [] pn = "join"     -> <<Body(Op("&", <<h, Obj(<<>>)>>))>>
    [] pn = "any"      -> <<Body(Op("~", <<h, Prim("num")>>))>>
    [] pn = "sum"      -> <<Body(Op("|", <<h, Prim("num")>>))>>
    [] pn = "rangeop"  -> <<GetTo(Op("::", <<h, C0>>))>>
    [] pn = "unary"    -> <<Body(Obj(<<Un("?", h)>>))>>
    [] pn = "urivar"   -> <<Res(Rel(Uri(<<Seg("a"), UVar(h)>>), <<Xfer("get", C0)>>))>>
    [] pn = "apparg"   -> <<Decl("w", <<"y">>, Obj(<<Prop("k", Var("y"))>>)), Body(App(Var("w"), <<h>>))>>
    [] pn = "recbody"  -> <<Body(Rec("r", h))>>
    [] pn = "refdecl"  -> <<LetRef("@z", h), Body(Var("@z"))>>
    [] pn = "concat"   -> <<Res(Rel(App(Var("concat"), <<h, Uri(<<Seg("x")>>)>>), <<Xfer("get", C0)>>))>>

\* the hole and the helper declarations for an indirection
Hole(ind, sh) ==
  CASE ind = "direct" -> sh
    [] ind \in {"let", "implet"} -> Var("h")
    [] ind = "reflet" -> Var("@h")
    [] ind \in {"idfn", "impfn"} -> App(Var("id"), <<sh>>)
Helpers(ind, sh) ==
  CASE ind = "let" -> <<Let("h", sh)>>
    [] ind = "reflet" -> <<LetRef("@h", sh)>>
    [] ind = "idfn" -> <<Decl("id", <<"x">>, Var("x"))>>
    [] OTHER -> <<>>
ModG(ind, sh) ==
  CASE ind = "implet" -> <<Let("h", sh)>>
    [] ind = "impfn" -> <<Decl("id", <<"x">>, Var("x"))>>
    [] OTHER -> <<>>

ProgOf(pn, sn, ind) ==
  LET sh == Shape(sn)
      main == (IF ind \in {"implet", "impfn"} THEN <<Use("g")>> ELSE <<>>) \o Helpers(ind, sh) \o Pos(pn, Hole(ind, sh))
  IN IF ind \in {"implet", "impfn"}
     THEN [main |-> "m1", mods |-> [m \in {"m1", "g"} |-> IF m = "m1" THEN main ELSE ModG(ind, sh)]]
     ELSE [main |-> "m1", mods |-> [m \in {"m1"} |-> main]]

\* ---- FnPos: a function whose parameter is consumed at a position, applied to a shape; the
\* function is local or imported (an imported generic function is not re-checked at its uses)
FnBody(fp, x) ==
  CASE fp = "f_body"    -> Cnt(<<>>, <<x>>)
    [] fp = "f_arr"     -> Arr(x)
    [] fp = "f_prop"    -> Obj(<<Prop("p", x)>>)
    [] fp = "f_objitem" -> Obj(<<x>>)
    [] fp = "f_join"    -> Op("&", <<x, Obj(<<>>)>>)
    [] fp = "f_any"     -> Op("~", <<x, Prim("num")>>)
    [] fp = "f_sum"     -> Op("|", <<x, Prim("num")>>)
    [] fp = "f_rangeop" -> Op("::", <<x, C0>>)
    [] fp = "f_unary"   -> Obj(<<Un("?", x)>>)
    [] fp = "f_headers" -> Cnt(<<Meta("headers", x)>>, <<Obj(<<>>)>>)
    [] fp = "f_media"   -> Cnt(<<Meta("media", x)>>, <<Obj(<<>>)>>)
    [] fp = "f_status"  -> Cnt(<<Meta("status", x)>>, <<Obj(<<>>)>>)
    [] fp = "f_urivar"  -> Uri(<<Seg("a"), UVar(x)>>)
    [] fp = "f_reluri"  -> Rel(x, <<Xfer("get", C0)>>)
    [] fp = "f_xrange"  -> Xfer("get", x)
    [] fp = "f_domain"  -> XferD("put", x, C0)
    [] fp = "f_xferlist" -> Rel(Root, <<x>>)
    [] fp = "f_id"      -> x

\* how the function's result is used so that evaluation reaches it
FnUse(fp, call) ==
  CASE fp \in {"f_body", "f_rangeop", "f_headers", "f_media", "f_status"} -> GetTo(call)
    [] fp \in {"f_arr", "f_prop", "f_objitem", "f_join", "f_any", "f_sum", "f_unary", "f_id"} -> Body(call)
    [] fp = "f_urivar" -> Res(Rel(call, <<Xfer("get", C0)>>))
    [] fp \in {"f_reluri", "f_xferlist"} -> Res(call)
    [] fp \in {"f_xrange", "f_domain"} -> Res(Rel(Root, <<call>>))

FnProg(fp, sn, where) ==
  LET f == Decl("f", <<"x">>, FnBody(fp, Var("x")))
      use == FnUse(fp, App(Var("f"), <<Shape(sn)>>))
  IN IF where = "fnimp"
     THEN [main |-> "m1", mods |-> [m \in {"m1", "g"} |-> IF m = "m1" THEN <<Use("g"), use>> ELSE <<f>>]]
     ELSE [main |-> "m1", mods |-> [m \in {"m1"} |-> <<f, use>>]]

AllFnPositions == {"f_body", "f_arr", "f_prop", "f_objitem", "f_join", "f_any", "f_sum", "f_rangeop", "f_unary", "f_headers", "f_media",
                   "f_status", "f_urivar", "f_reluri", "f_xrange", "f_domain", "f_xferlist", "f_id"}

\* ---- Arity: applications with too few / exactly / too many arguments ---------------------------
\* f has np parameters (np = 1, 2), its body uses all of them or only the first; it is applied to k arguments
\* (k = 0 is the bare name used as a value); locally or from an imported module; and the built-in concat with 1..3
ArityNames == {"f1-0", "f1-1", "f1-2", "f2-0", "f2-1", "f2-2", "f2-3", "f2u-1", "f2u-2", "f2u-3",
               "imp-f1-2", "imp-f2-1", "imp-f2-2", "imp-f2u-1", "imp-f2-3",
               "concat-1", "concat-2", "concat-3", "via-let-f2-1", "nested-f2-1", "nested-f2-2"}
ArityFn(np, allused) ==
  IF np = 1 THEN Decl("f", <<"a">>, Obj(<<Prop("first", Var("a"))>>))
  ELSE Decl("f", <<"a", "b">>, Obj(IF allused THEN <<Prop("first", Var("a")), Prop("second", Var("b"))>> ELSE <<Prop("first", Var("a"))>>))
ArityArgs(k) == SubSeq(<<Prim("str"), Prim("num"), Prim("bool")>>, 1, k)
ArityUse(fv, k) == IF k = 0 THEN fv ELSE App(fv, ArityArgs(k))
ArityOne(stmts) == [main |-> "m1", mods |-> [m \in {"m1"} |-> stmts]]
ArityTwo(gstmts, stmts) == [main |-> "m1", mods |-> [m \in {"m1", "g"} |-> IF m = "g" THEN gstmts ELSE <<Use("g")>> \o stmts]]
ArityProg(nm) ==
  CASE nm = "f1-0" -> ArityOne(<<ArityFn(1, TRUE), Body(ArityUse(Var("f"), 0))>>)
    [] nm = "f1-1" -> ArityOne(<<ArityFn(1, TRUE), Body(ArityUse(Var("f"), 1))>>)
    [] nm = "f1-2" -> ArityOne(<<ArityFn(1, TRUE), Body(ArityUse(Var("f"), 2))>>)
    [] nm = "f2-0" -> ArityOne(<<ArityFn(2, TRUE), Body(ArityUse(Var("f"), 0))>>)
    [] nm = "f2-1" -> ArityOne(<<ArityFn(2, TRUE), Body(ArityUse(Var("f"), 1))>>)
    [] nm = "f2-2" -> ArityOne(<<ArityFn(2, TRUE), Body(ArityUse(Var("f"), 2))>>)
    [] nm = "f2-3" -> ArityOne(<<ArityFn(2, TRUE), Body(ArityUse(Var("f"), 3))>>)
    [] nm = "f2u-1" -> ArityOne(<<ArityFn(2, FALSE), Body(ArityUse(Var("f"), 1))>>)
    [] nm = "f2u-2" -> ArityOne(<<ArityFn(2, FALSE), Body(ArityUse(Var("f"), 2))>>)
    [] nm = "f2u-3" -> ArityOne(<<ArityFn(2, FALSE), Body(ArityUse(Var("f"), 3))>>)
    [] nm = "imp-f1-2" -> ArityTwo(<<ArityFn(1, TRUE)>>, <<Body(ArityUse(Var("f"), 2))>>)
    [] nm = "imp-f2-1" -> ArityTwo(<<ArityFn(2, TRUE)>>, <<Body(ArityUse(Var("f"), 1))>>)
    [] nm = "imp-f2-2" -> ArityTwo(<<ArityFn(2, TRUE)>>, <<Body(ArityUse(Var("f"), 2))>>)
    [] nm = "imp-f2u-1" -> ArityTwo(<<ArityFn(2, FALSE)>>, <<Body(ArityUse(Var("f"), 1))>>)
    [] nm = "imp-f2-3" -> ArityTwo(<<ArityFn(2, TRUE)>>, <<Body(ArityUse(Var("f"), 3))>>)
    [] nm = "concat-1" -> ArityOne(<<Res(Rel(App(Var("concat"), <<Uri(<<Seg("a")>>)>>), <<Xfer("get", C0)>>))>>)
    [] nm = "concat-2" -> ArityOne(<<Res(Rel(App(Var("concat"), <<Uri(<<Seg("a")>>), Uri(<<Seg("b")>>)>>), <<Xfer("get", C0)>>))>>)
    [] nm = "concat-3" -> ArityOne(<<Res(Rel(App(Var("concat"), <<Uri(<<Seg("a")>>), Uri(<<Seg("b")>>), Uri(<<Seg("c")>>)>>), <<Xfer("get", C0)>>))>>)
    [] nm = "via-let-f2-1" -> ArityOne(<<ArityFn(2, TRUE), Let("h", ArityUse(Var("f"), 1)), Body(Var("h"))>>)
    [] nm = "nested-f2-1" -> ArityOne(<<ArityFn(2, TRUE), Decl("g2", <<"x">>, App(Var("f"), <<Var("x")>>)), Body(App(Var("g2"), <<Prim("num")>>))>>)
    [] nm = "nested-f2-2" -> ArityOne(<<ArityFn(2, TRUE), Decl("g2", <<"x">>, App(Var("f"), <<Var("x"), Var("x")>>)), Body(App(Var("g2"), <<Prim("num")>>))>>)

\* ---- DynScope: a caller's binder named like a parameter of the callee ----------------------------
\* g has parameters a, b (k has a, b, c); the caller is a function with parameter N or a rec with binder N, N in {a, b, z};
\* the arguments mention N.  Lexically N is the caller's binder whatever the callee calls its parameters.
DynNames == {"a", "b", "z"}
DynCallee(imported) == <<Decl("g", <<"a", "b">>, Obj(<<Prop("first", Var("a")), Prop("second", Var("b"))>>)),
                         Decl("k", <<"a", "b", "c">>, Obj(<<Prop("first", Var("a")), Prop("second", Var("b")), Prop("third", Var("c"))>>))>>
DynArgs(nm, pat) ==
  CASE pat = "cn"  -> <<Prim("num"), Var(nm)>>
    [] pat = "nc"  -> <<Var(nm), Prim("num")>>
    [] pat = "nn"  -> <<Var(nm), Var(nm)>>
    [] pat = "cAn" -> <<Prim("num"), Arr(Var(nm))>>
DynProg(nm, pat, site, imported) ==
  LET gv == Var("g")  kv == Var("k")
      main == CASE site = "fn"  -> <<Decl("f", <<nm>>, App(gv, DynArgs(nm, pat))), Body(App(Var("f"), <<Prim("str")>>))>>
                [] site = "fn3" -> <<Decl("f", <<nm>>, App(kv, <<Prim("bool")>> \o DynArgs(nm, pat))), Body(App(Var("f"), <<Prim("str")>>))>>
                [] site = "rec" -> <<Let("t", Rec(nm, Obj(<<Prop("self", App(gv, <<Prim("bool"), Arr(Var(nm))>>))>>))), Body(Var("t"))>>
                [] site = "fnfn" -> <<Decl("h", <<"a">>, Obj(<<Prop("inner", Var("a"))>>)),
                                      Decl("f", <<nm>>, App(gv, <<App(Var("h"), <<Prim("int")>>), App(Var("h"), <<Var(nm)>>)>>)),
                                      Body(App(Var("f"), <<Prim("str")>>))>>
  IN IF imported
     THEN [main |-> "m1", mods |-> [m \in {"m1", "g"} |-> IF m = "g" THEN DynCallee(TRUE) ELSE <<Use("g")>> \o main]]
     ELSE [main |-> "m1", mods |-> [m \in {"m1"} |-> DynCallee(FALSE) \o main]]
DynScopeFamily ==
  {DynProg(nm, pat, site, imp) : nm \in DynNames, pat \in {"cn", "nc", "nn", "cAn"}, site \in {"fn", "fn3"}, imp \in BOOLEAN}
  \cup {DynProg(nm, "cn", site, imp) : nm \in DynNames, site \in {"rec", "fnfn"}, imp \in BOOLEAN}

\* ---- RecPair: two binders in one statement, spelled alike or not, of the same or of different kinds ----
\* body(b, kd): a recursive schema over binder b whose kind is fixed by use: an object with a sum of b and {},
\* an array of a sum of b and an array, or (ill-kinded) an array of a sum of b and an object
RecPairBody(b, kd) ==
  CASE kd = "obj" -> Obj(<<Prop("kids", Arr(Op("|", <<Var(b), Obj(<<>>)>>)))>>)
    [] kd = "arr" -> Arr(Op("|", <<Var(b), Arr(Prim("num"))>>))
    [] kd = "bad" -> Arr(Op("|", <<Var(b), Obj(<<>>)>>))
RecPairKinds == {"obj", "arr", "bad"}
RecPairBinders == {"x", "y"}
RecPairHosts == {"props", "param", "nested"}
RecPairProg(h, b1, k1, b2, k2) ==
  CASE h = "props" -> ArityOne(<<Let("a", Obj(<<Prop("t", Rec(b1, RecPairBody(b1, k1))), Prop("l", Rec(b2, RecPairBody(b2, k2)))>>)), Body(Var("a"))>>)
    \* a parameter b1 used as an object, and a rec binder b2 of kind k2 in the same function body
    [] h = "param" -> ArityOne(<<Decl("f", <<b1>>, Obj(<<Prop("a", Op("|", <<Var(b1), Obj(<<>>)>>)), Prop("b", Rec(b2, RecPairBody(b2, k2)))>>)),
                                 Body(App(Var("f"), <<Obj(<<>>)>>))>>)
    \* a rec inside a rec: the inner binder may repeat the outer spelling
    [] h = "nested" -> ArityOne(<<Let("a", Rec(b1, Obj(<<Prop("o", Arr(Op("|", <<Var(b1), Obj(<<>>)>>))), Prop("i", Rec(b2, RecPairBody(b2, k2)))>>))), Body(Var("a"))>>)
\* names "host-b1-k1-b2-k2" are built by the MC modules from the five components

\* one program per (position, shape, indirection) of either family
Member(pn, sn, ind) == IF pn = "arity" THEN ArityProg(sn) ELSE IF pn = "recpair" THEN RecPairProg(sn[1], sn[2], sn[3], sn[4], sn[5]) ELSE IF ind \in {"fnlocal", "fnimp"} THEN FnProg(pn, sn, ind) ELSE ProgOf(pn, sn, ind)
ValidMember(pn, ind) == (ind \in {"fnlocal", "fnimp"}) <=> (pn \in AllFnPositions)

\* ---- RecGraphs: dependency graphs over N declarations of every kind ------------------------------
DName(i) == CASE i = 1 -> "d1" [] i = 2 -> "d2" [] i = 3 -> "d3" [] OTHER -> "d4"
PName(i) == CASE i = 1 -> "r1" [] i = 2 -> "r2" [] i = 3 -> "r3" [] OTHER -> "r4"

RecKinds == {"obj", "arr", "alias", "cnt", "sum", "fn", "rel"}
\* a reference to declaration j: functions are applied, everything else is named
RefTo(kinds, j) == IF kinds[j] = "fn" THEN App(Var(DName(j)), <<Prim("num")>>) ELSE Var(DName(j))

RecBody(kinds, kd, refs) ==
  LET rf(j) == RefTo(kinds, refs[j]) IN
  CASE kd = "obj" -> Obj([j \in 1..Len(refs) |-> Prop(PName(j), rf(j))])
    [] kd = "arr" -> Arr(IF refs = <<>> THEN Prim("num") ELSE rf(1))
    [] kd = "alias" -> rf(1)
    [] kd = "cnt" -> Cnt(<<>>, IF refs = <<>> THEN <<>> ELSE <<rf(1)>>)
    [] kd = "sum" -> Op("|", <<IF Len(refs) >= 1 THEN rf(1) ELSE Prim("num"), IF Len(refs) >= 2 THEN rf(2) ELSE Prim("str")>>)
    [] kd = "fn" -> Obj(<<Prop("v", Var("x"))>> \o [j \in 1..Len(refs) |-> Prop(PName(j), rf(j))])
    \* a relation whose transfer range is the referenced declarations themselves (bare, combined with ::)
    [] kd = "rel" -> Rel(Uri(<<Seg("self")>>),
                         <<Xfer("get", IF refs = <<>> THEN C0
                                       ELSE IF Len(refs) = 1 THEN rf(1)
                                       ELSE Op("::", [j \in 1..Len(refs) |-> rf(j)]))>>)

ArityOK(kd, refs) ==
  CASE kd = "alias" -> Len(refs) = 1
    [] kd \in {"arr", "cnt"} -> Len(refs) <= 1
    [] kd = "sum" -> Len(refs) <= 2
    [] OTHER -> TRUE

\* ascending sequences over 1..n
AscSeqs(n) == {s \in UNION {[1..k -> 1..n] : k \in 0..n} : \A a, b \in DOMAIN s : a < b => s[a] < s[b]}

RecProg(n, kinds, refs) ==
  LET decl(i) == IF kinds[i] = "fn" THEN Decl(DName(i), <<"x">>, RecBody(kinds, "fn", refs[i]))
                 ELSE Let(DName(i), RecBody(kinds, kinds[i], refs[i]))
      use == IF kinds[1] = "cnt" THEN GetTo(Var("d1")) ELSE IF kinds[1] = "rel" THEN Res(Var("d1")) ELSE Body(RefTo(kinds, 1))
  IN [main |-> "m1", mods |-> [m \in {"m1"} |-> [i \in 1..n |-> decl(i)] \o <<use>>]]

RecGraphs(n) ==
  UNION {{RecProg(n, kinds, refs) : refs \in {r \in [1..n -> AscSeqs(n)] : \A i \in 1..n : ArityOK(kinds[i], r[i])}}
         : kinds \in [1..n -> RecKinds]}
\* the slice of RecGraphs(n) whose first declaration has kind k1 (TLC enumerates initial states on one thread: the
\* driver runs the slices side by side)
RecGraphsFirst(n, k1) ==
  UNION {{RecProg(n, kinds, refs) : refs \in {r \in [1..n -> AscSeqs(n)] : \A i \in 1..n : ArityOK(kinds[i], r[i])}}
         : kinds \in {ks \in [1..n -> RecKinds] : ks[1] = k1}}

\* ---- RecInst: instantiations of recursive schemas ------------------------------------------------
RNode == Rec("r", Obj(<<Prop("v", Var("x")), Prop("n", Arr(Var("r")))>>))
FRec == Decl("f", <<"x">>, RNode)
TRec == Let("t", Rec("r", Obj(<<Prop("n", Arr(Var("r")))>>)))
RecInst(name) ==
  LET one(stmts) == [main |-> "m1", mods |-> [m \in {"m1"} |-> stmts]] IN
  CASE name = "fn-once"   -> one(<<FRec, Body(App(Var("f"), <<Prim("num")>>))>>)
    [] name = "fn-twice"  -> one(<<FRec, Body(Obj(<<Prop("a", App(Var("f"), <<Prim("num")>>)), Prop("b", App(Var("f"), <<Prim("str")>>))>>))>>)
    [] name = "fn-same-arg-twice" -> one(<<FRec, Body(Obj(<<Prop("a", App(Var("f"), <<Prim("num")>>)), Prop("b", App(Var("f"), <<Prim("num")>>))>>))>>)
    [] name = "fn-thrice" -> one(<<FRec, Body(Obj(<<Prop("a", App(Var("f"), <<Prim("num")>>)), Prop("b", App(Var("f"), <<Prim("str")>>)),
                                                    Prop("c", App(Var("f"), <<Obj(<<>>)>>))>>))>>)
    [] name = "top-twice" -> one(<<TRec, Body(Obj(<<Prop("a", Var("t")), Prop("b", Var("t"))>>))>>)
    [] name = "nested-fn" -> one(<<FRec, Decl("g", <<"y">>, Obj(<<Prop("w", App(Var("f"), <<Var("y")>>)), Prop("z", App(Var("f"), <<Var("y")>>))>>)),
                                   Body(Obj(<<Prop("a", App(Var("g"), <<Prim("num")>>)), Prop("b", App(Var("g"), <<Prim("str")>>))>>))>>)
    [] name = "nested-fn-two-args" -> one(<<FRec, Decl("pair", <<"y", "z">>, Obj(<<Prop("one", App(Var("f"), <<Var("y")>>)), Prop("other", App(Var("f"), <<Var("z")>>))>>)),
                                           Body(App(Var("pair"), <<Prim("int"), Prim("str")>>))>>)
    [] name = "nested-fn-twice-two-args" -> one(<<FRec, Decl("pair", <<"y", "z">>, Obj(<<Prop("one", App(Var("f"), <<Var("y")>>)), Prop("other", App(Var("f"), <<Var("z")>>))>>)),
                                                 Body(Obj(<<Prop("p", App(Var("pair"), <<Prim("int"), Prim("str")>>)), Prop("q", App(Var("pair"), <<Prim("bool"), Obj(<<>>)>>))>>))>>)
    [] name = "rec-in-rec" -> one(<<Let("t", Rec("a", Obj(<<Prop("x", Rec("b", Obj(<<Prop("up", Arr(Var("a"))), Prop("self", Arr(Var("b")))>>)))>>))),
                                    Body(Var("t"))>>)
    [] name = "decl-and-rec" -> one(<<Let("d", Obj(<<Prop("k", Arr(Var("d"))), Prop("r", Rec("z", Arr(Var("z"))))>>)), Body(Var("d"))>>)
    [] name = "fn-of-rec" -> one(<<FRec, Body(App(Var("f"), <<Rec("q", Arr(Var("q")))>>))>>)
    [] name = "same-binder-name" -> one(<<Decl("f", <<"y">>, Rec("x", Obj(<<Prop("a", Var("y")), Prop("b", Arr(Var("x")))>>))),
                                          Body(Rec("x", Obj(<<Prop("c", App(Var("f"), <<Var("x")>>))>>)))>>)
    \* two imported modules with the same file name in different directories, with recursive declarations / rec
    \* expressions at the same place of their text: one component per module
    [] name = "same-file-name-decl" ->
         [main |-> "m1", mods |-> [m \in {"m1", "v1/model", "v2/model"} |->
            CASE m = "v1/model" -> <<Let("node", Obj(<<Prop("name", Prim("str")), Prop("kids", Arr(Var("node")))>>))>>
              [] m = "v2/model" -> <<Let("node", Obj(<<Prop("text", Prim("int")), Prop("next", Arr(Var("node")))>>))>>
              [] OTHER -> <<UseAs("v1/model", "a"), UseAs("v2/model", "b"),
                            Body(Obj(<<Prop("one", QVar("a", "node")), Prop("two", QVar("b", "node"))>>))>>]]
    [] name = "same-file-name-rec" ->
         [main |-> "m1", mods |-> [m \in {"m1", "v1/model", "v2/model"} |->
            CASE m = "v1/model" -> <<Let("node", Rec("r", Obj(<<Prop("name", Prim("str")), Prop("kids", Arr(Var("r")))>>)))>>
              [] m = "v2/model" -> <<Let("node", Rec("r", Obj(<<Prop("text", Prim("int")), Prop("next", Arr(Var("r")))>>)))>>
              [] OTHER -> <<UseAs("v1/model", "a"), UseAs("v2/model", "b"),
                            Body(Obj(<<Prop("one", QVar("a", "node")), Prop("two", QVar("b", "node"))>>))>>]]
    \* a declaration cycle closed by a reference that comes AFTER a parenthesised rec expression in the same declaration
    [] name = "rec-then-cycle" -> one(<<Let("a", Obj(<<Prop("tags", Rec("t", Obj(<<Prop("name", Prim("str")), Prop("sub", Arr(Var("t")))>>))), Prop("b", Var("b"))>>)),
                                        Let("b", Obj(<<Prop("a", Var("a")), Prop("next", Var("b"))>>)), Body(Var("a"))>>)
    [] name = "rec-then-cycle-2" -> one(<<Let("a", Obj(<<Prop("tags", Rec("t", Obj(<<Prop("sub", Arr(Var("t")))>>))), Prop("b", Var("b"))>>)),
                                          Let("b", Obj(<<Prop("a", Var("a"))>>)), Body(Var("a"))>>)
    [] name = "rec-then-fn-cycle" -> one(<<Decl("f", <<"x">>, Obj(<<Prop("tags", Rec("t", Obj(<<Prop("v", Var("x")), Prop("sub", Arr(Var("t")))>>))), Prop("g", App(Var("g"), <<Var("x")>>))>>)),
                                           Decl("g", <<"x">>, App(Var("f"), <<Var("x")>>)), Body(App(Var("f"), <<Prim("str")>>))>>)
    [] name = "imported-fn" -> [main |-> "m1", mods |-> [m \in {"m1", "g"} |->
                                  IF m = "g" THEN <<FRec>>
                                  ELSE <<Use("g"), Body(Obj(<<Prop("a", App(Var("f"), <<Prim("num")>>)), Prop("b", App(Var("f"), <<Prim("str")>>))>>))>>]]
    [] name = "ref-decl-twice" -> one(<<LetRef("@o", Obj(<<Prop("k", Arr(Var("@o")))>>)), Body(Obj(<<Prop("a", Var("@o")), Prop("b", Var("@o"))>>))>>)
    \* a reference / a recursive declaration that instantiates a rec, used again from inside function applications and rec
    \* scopes after it has been evaluated: evaluated once, its rec instantiated once
    [] name = "ref-rec-in-fn-twice" -> one(<<LetRef("@tree", Rec("t", Obj(<<Prop("kids", Arr(Var("t")))>>))),
                                             Decl("wrap", <<"x">>, Obj(<<Prop("data", Var("x")), Prop("tree", Var("@tree"))>>)),
                                             Body(Obj(<<Prop("a", App(Var("wrap"), <<Prim("str")>>)), Prop("b", App(Var("wrap"), <<Prim("num")>>))>>))>>)
    [] name = "rec-decl-via-fn-in-fn-twice" ->
         one(<<Decl("list", <<"x">>, Rec("l", Obj(<<Prop("head", Var("x")), Prop("tail", Arr(Var("l")))>>))),
               Let("node", Obj(<<Prop("name", Prim("str")), Prop("kids", App(Var("list"), <<Var("node")>>))>>)),
               Decl("page", <<"y">>, Obj(<<Prop("items", Arr(Var("y"))), Prop("root", Var("node"))>>)),
               Body(Obj(<<Prop("a", App(Var("page"), <<Prim("str")>>)), Prop("b", App(Var("page"), <<Prim("num")>>))>>))>>)
    [] name = "ref-rec-in-rec" -> one(<<LetRef("@tree", Rec("t", Obj(<<Prop("kids", Arr(Var("t")))>>))),
                                        Body(Obj(<<Prop("a", Var("@tree")), Prop("b", Rec("z", Obj(<<Prop("t", Var("@tree")), Prop("n", Arr(Var("z")))>>)))>>))>>)
    [] name = "rel-self" -> one(<<Let("r", Rel(Uri(<<Seg("self")>>), <<Xfer("get", Var("r"))>>)), Res(Var("r"))>>)
    [] name = "rel-rec" -> one(<<Res(Rec("x", Rel(Uri(<<Seg("self")>>), <<Xfer("get", Var("x"))>>)))>>)
    [] name = "rel-domain" -> one(<<Let("r", Rel(Uri(<<Seg("self")>>), <<XferD("put", Var("r"), Op("::", <<Var("r"), C0>>))>>)), Res(Var("r"))>>)
    [] name = "rel-mutual" -> one(<<Let("a", Rel(Uri(<<Seg("a")>>), <<Xfer("get", Var("b"))>>)), Let("b", Rel(Uri(<<Seg("b")>>), <<Xfer("get", Var("a"))>>)),
                                   Res(Var("a")), Res(Var("b"))>>)
    [] name = "mutual" -> one(<<Let("a", Obj(<<Prop("b", Var("b"))>>)), Let("b", Obj(<<Prop("a", Var("a"))>>)), Body(Obj(<<Prop("x", Var("a")), Prop("y", Var("b"))>>))>>)
RecInstNames == {"nested-fn-two-args", "nested-fn-twice-two-args", "fn-once", "fn-twice", "fn-same-arg-twice", "fn-thrice", "top-twice", "nested-fn", "rec-in-rec", "decl-and-rec", "fn-of-rec",
                 "same-binder-name", "imported-fn", "same-file-name-decl", "same-file-name-rec", "rec-then-cycle", "rec-then-cycle-2", "rec-then-fn-cycle", "ref-decl-twice", "mutual", "rel-self", "rel-rec", "rel-domain", "rel-mutual",
                 "ref-rec-in-fn-twice", "rec-decl-via-fn-in-fn-twice", "ref-rec-in-rec"}

\* ---- Ranges, Uris, Xfers: the parts of a resource ---------------------------------------------------
CntOf(st, md, body) ==
  Cnt((IF st = "" THEN <<>> ELSE <<Meta("status", IF st = "4XX" THEN LitStatus(st) ELSE LitNum(st))>>)
      \o (IF md = "" THEN <<>> ELSE <<Meta("media", LitStr(md))>>), <<body>>)
Statuses == {"", "200", "404", "4XX"}
Medias == {"", "a/x", "b/y"}
RangesFamily ==
  {[main |-> "m1", mods |-> [m \in {"m1"} |-> <<GetTo(Op("::", <<CntOf(s1, m1, Prim("num")), CntOf(s2, m2, Prim("str"))>>))>>]]
     : s1 \in Statuses, m1 \in Medias, s2 \in Statuses, m2 \in Medias}
  \cup {[main |-> "m1", mods |-> [m \in {"m1"} |-> <<GetTo(Op("::", <<CntOf(s1, "", OA), C0, CntOf("404", m2, Prim("str"))>>))>>]]
          : s1 \in {"", "200"}, m2 \in Medias}
  \cup {[main |-> "m1", mods |-> [m \in {"m1"} |->
            <<Let("err", Cnt(<<Meta("status", LitStatus("5XX")), Meta("headers", Obj(<<PropReq("X-Id", Prim("str"))>>))>>, <<Obj(<<>>)>>)),
              Decl("with", <<"s">>, Op("::", <<Cnt(<<Meta("status", LitNum("200"))>>, <<Var("s")>>), Var("err")>>)),
              GetTo(App(Var("with"), <<OA>>))>>]]}

UriShapes ==
  {Uri(<<Seg("")>>), Uri(<<Seg("a")>>), Uri(<<Seg("a"), Seg("b")>>), Uri(<<Seg("a"), Seg("")>>),
   Uri(<<Seg("a"), UVar(Prop("id", Prim("int")))>>), Uri(<<UVar(PropReq("k", Prim("str"))), Seg("x")>>),
   UriQ(<<Seg("q")>>, Obj(<<Prop("f", Prim("str")), PropReq("g", Prim("num")), PropOpt("h", Prim("bool"))>>)),
   UriQ(<<Seg("a"), UVar(Prop("id", Prim("int")))>>, Obj(<<PropReq("page", Prim("int"))>>)),
   \* a query parameter with the name of a path variable: two parameters (OpenAPI identifies a parameter by name and location)
   UriQ(<<Seg("n"), UVar(Prop("nm", Prim("int")))>>, Obj(<<Prop("nm", Prim("str")), Prop("q", Prim("str"))>>))}
UrisFamily ==
  {[main |-> "m1", mods |-> [m \in {"m1"} |-> <<Res(Rel(u, <<Xfer("get", C0)>>))>>]] : u \in UriShapes}
  \cup {[main |-> "m1", mods |-> [m \in {"m1"} |-> <<Res(Rel(App(Var("concat"), <<u1, u2>>), <<Xfer("get", C0)>>))>>]] : u1 \in UriShapes, u2 \in UriShapes}
  \cup {[main |-> "m1", mods |-> [m \in {"m1"} |-> <<Let("base", u1), Res(Rel(App(Var("concat"), <<Var("base"), u2>>), <<Xfer("get", C0)>>)), Res(Var("base"))>>]]
          : u1 \in {Uri(<<Seg("v1")>>), Uri(<<Seg("v1"), Seg("")>>)}, u2 \in UriShapes}

XferShapes ==
  {<<Xfer("get", C0)>>, <<Xfer("get,put", Cnt(<<>>, <<OA>>))>>, <<Xfer("get", C0), Xfer("put", Cnt(<<>>, <<Prim("num")>>))>>,
   <<XferP("get", Obj(<<Prop("q", Prim("str")), PropReq("r", Prim("int"))>>), Cnt(<<>>, <<OA>>))>>,
   <<XferD("put", Cnt(<<>>, <<OA>>), C0)>>,
   <<XferD("post", Cnt(<<Meta("media", LitStr("a/x")), Meta("headers", Obj(<<Prop("If-Match", Prim("str"))>>))>>, <<OA>>), Cnt(<<Meta("status", LitNum("201"))>>, <<OA>>))>>,
   <<N("xfer", "patch,delete", "", 3, <<Obj(<<Prop("force", Prim("bool"))>>), Cnt(<<>>, <<Prim("str")>>), Op("::", <<C0, CntOf("404", "", Prim("str"))>>)>>)>>,
   <<Xfer("get", Prim("num")), Xfer("head", C0), Xfer("options", OA)>>}
XfersFamily ==
  {[main |-> "m1", mods |-> [m \in {"m1"} |-> <<Res(Rel(Uri(<<Seg("x")>>), xs))>>]] : xs \in XferShapes}
  \cup {[main |-> "m1", mods |-> [m \in {"m1"} |-> <<Let("op", xs[1]), Res(Rel(Uri(<<Seg("x")>>), <<Var("op")>>)), Res(Rel(Uri(<<Seg("y")>>), <<Var("op")>>))>>]] : xs \in XferShapes}

\* schemas to depth 2 and marks in the three places they can be written
SchemaLeaves == {Prim("num"), Prim("str"), Prim("bool"), Prim("int"), Prim("uri"), Obj(<<>>), Uri(<<Seg("s")>>)}
SchemaL1 == SchemaLeaves \cup {Arr(x) : x \in SchemaLeaves}
            \cup {Obj(<<Prop("a", x), PropReq("b", Prim("num")), PropOpt("c", Prim("str"))>>) : x \in SchemaLeaves}
            \cup {Op(o, <<x, OA>>) : o \in {"~", "|"}, x \in {Prim("num"), OA, Arr(Prim("str"))}}
            \cup {Op("&", <<OA, Obj(<<Prop("z", x)>>)>>) : x \in SchemaLeaves}
            \cup {Obj(<<Un("!", Prop("m", Prim("num"))), Un("?", PropReq("n", Prim("str")))>>)}
SchemasFamily ==
  {[main |-> "m1", mods |-> [m \in {"m1"} |-> <<Body(x)>>]] : x \in SchemaL1}
  \cup {[main |-> "m1", mods |-> [m \in {"m1"} |-> <<Body(Obj(<<Prop("o", x), Prop("l", Arr(x))>>))>>]] : x \in SchemaL1}
  \cup {[main |-> "m1", mods |-> [m \in {"m1"} |-> <<LetRef("@s", x), Body(Obj(<<Prop("r", Var("@s")), Prop("q", Arr(Var("@s")))>>))>>]] : x \in SchemaL1}

\* ---- Annots: annotated values at schema, property, content and transfer level ---------------------
AnnShape(sn) ==
  CASE sn = "a-obj"  -> Ann(OA, <<Desc("d1"), Title("t1")>>)
    [] sn = "a-num"  -> Ann(Prim("num"), <<AnnE("minimum", "1", "n", "inline"), Desc("a number")>>)
    [] sn = "a-str"  -> Ann(Prim("str"), <<AnnE("pattern", "^a+$", "s", "inline"), AnnE("example", "aaa", "s", "inline")>>)
    [] sn = "a-props" -> Obj(<<Ann(Prop("p", Prim("num")), <<AnnE("description", "pd", "s", "line"), AnnE("required", "true", "b", "line")>>),
                              Prop("q", Ann(Prim("str"), <<Title("qt")>>))>>)
    [] sn = "a-arr"  -> Ann(Arr(Ann(Prim("int"), <<AnnE("minimum", "0", "n", "inline")>>)), <<Desc("an array")>>)
    [] sn = "a-sum"  -> Ann(Op("|", <<Ann(Prim("num"), <<Title("n")>>), Prim("str")>>), <<Desc("a sum")>>)
    [] sn = "a-line" -> Ann(OA, <<AnnE("description", "line d", "s", "line"), AnnE("title", "line t", "s", "line")>>)
    [] sn = "a-rec"  -> Ann(Rec("x", Obj(<<Prop("k", Arr(Var("x")))>>)), <<Desc("rec d"), Title("rec t")>>)
    [] sn = "a-plain" -> OA
    \* the mark on a property against a `required` annotation on the property's type: the mark wins, the type decides only without one
    [] sn = "a-reqmix" -> LET T == Ann(Prim("num"), <<AnnE("required", "true", "b", "inline")>>)
                              F == Ann(Prim("str"), <<AnnE("required", "false", "b", "inline")>>)
                          IN Obj(<<PropOpt("a", T), PropReq("b", F), Prop("c", T), Prop("d", F), Un("?", Prop("e", T)), Un("!", Prop("g", F))>>)
AnnShapeNames == {"a-obj", "a-num", "a-str", "a-props", "a-arr", "a-sum", "a-line", "a-rec", "a-plain", "a-reqmix"}

\* the value supplied through an indirection, optionally annotated again at the use site
AnnHole(ind, sh, use) ==
  LET h == CASE ind = "direct" -> sh
             [] ind \in {"let", "letann", "implet"} -> Var("h")
             [] ind \in {"idfn", "idfnann", "impfn"} -> App(Var("id"), <<sh>>)
  IN IF use = "none" \/ ind = "direct" THEN h          \* written in place there is no separate use site
     ELSE IF use = "title" THEN Ann(h, h.ann \o <<AnnE("title", "use t", "s", "inline")>>)
     ELSE Ann(h, h.ann \o <<AnnE("description", "use d", "s", "inline")>>)
AnnHelpers(ind, sh) ==
  CASE ind = "let" -> <<Let("h", sh)>>
    [] ind = "letann" -> <<Ann(Let("h", sh), <<AnnE("description", "decl d", "s", "line")>>)>>
    [] ind = "idfn" -> <<Decl("id", <<"x">>, Var("x"))>>
    \* the function declaration carries annotations of its own: the application site wins over them
    [] ind = "idfnann" -> <<Ann(Decl("id", <<"x">>, Var("x")), <<AnnE("description", "fn d", "s", "line"), AnnE("title", "fn t", "s", "line")>>)>>
    [] OTHER -> <<>>
AnnPos(pn, h) ==
  CASE pn = "body" -> <<Body(h)>>
    [] pn = "proprhs" -> <<Body(Obj(<<Prop("p", h)>>))>>
    [] pn = "arritem" -> <<Body(Arr(h))>>
    [] pn = "range" -> <<GetTo(Ann(Cnt(<<Meta("status", LitNum("200"))>>, <<h>>), <<Desc("the content")>>))>>
    [] pn = "domain" -> <<Res(Rel(Root, <<XferD("put", Cnt(<<>>, <<h>>), C0)>>))>>
    [] pn = "xfer" -> <<Ann(Let("op", Xfer("get", Cnt(<<>>, <<h>>))),
                          <<AnnE("summary", "the op", "s", "line"), AnnE("operationId", "theOp", "s", "line"), AnnE("tags", "t1,t2", "l", "line")>>),
                        Res(Rel(Root, <<Var("op")>>))>>
AnnPositions == {"body", "proprhs", "arritem", "range", "domain", "xfer"}
AnnInds == {"direct", "let", "letann", "idfn", "idfnann", "implet", "impfn"}
AnnUses == {"none", "title", "desc"}

AnnProg(pn, sn, ind, use) ==
  LET sh == AnnShape(sn)
      main == (IF ind \in {"implet", "impfn"} THEN <<Use("g")>> ELSE <<>>) \o AnnHelpers(ind, sh) \o AnnPos(pn, AnnHole(ind, sh, use))
  IN IF ind \in {"implet", "impfn"}
     THEN [main |-> "m1", mods |-> [m \in {"m1", "g"} |-> IF m = "m1" THEN main ELSE ModG(ind, sh)]]
     ELSE [main |-> "m1", mods |-> [m \in {"m1"} |-> main]]
\* a recursive declaration (a shared component) reached through an annotated alias: which resource is evaluated first
RecAnnProg(order) ==
  LET t == Ann(Let("t", Obj(<<Prop("kids", Arr(Var("t")))>>)), <<AnnE("description", "A", "s", "line")>>)
      u == Ann(Let("u", Var("t")), <<AnnE("description", "B", "s", "line")>>)
      rx == Res(Rel(Uri(<<Seg("x")>>), <<Xfer("get", Cnt(<<>>, <<Var("u")>>))>>))
      ry == Res(Rel(Uri(<<Seg("y")>>), <<Xfer("get", Cnt(<<>>, <<Var("t")>>))>>))
  IN [main |-> "m1", mods |-> [m \in {"m1"} |-> IF order = "alias-first" THEN <<t, u, rx, ry>> ELSE <<t, u, ry, rx>>]]
RecAnnLabelled == {[l |-> <<"recann", o, "recdecl", "desc">>, p |-> RecAnnProg(o)] : o \in {"alias-first", "decl-first"}}

AnnotsFamily == {AnnProg(pn, sn, ind, use) : pn \in AnnPositions, sn \in AnnShapeNames, ind \in AnnInds, use \in AnnUses}
                \cup {x.p : x \in RecAnnLabelled}
AnnotsLabelled == {[l |-> <<pn, sn, ind, IF ind = "direct" THEN "none" ELSE use>>, p |-> AnnProg(pn, sn, ind, use)]
                     : pn \in AnnPositions, sn \in AnnShapeNames, ind \in AnnInds, use \in AnnUses}
                  \cup RecAnnLabelled

AllPositions == {"body", "range", "domain", "headers", "media", "status", "reluri", "res", "xferlist", "proprhs", "objitem",
                 "arritem", "join", "any", "sum", "rangeop", "unary", "urivar", "apparg", "recbody", "refdecl", "concat"}
AllShapes == {"num", "str", "uriprim", "obj", "obj0", "arr", "prop", "propreq", "unopt", "join", "any", "sum", "sumobj", "sumuri", "sumrel", "cnt", "cnt0",
              "cntfull", "ranges", "urit", "urivar", "rel", "xfer", "litnum", "litstr", "litstatus", "rec",
              "litnum0", "litnum42", "litnum99", "litnum600", "litnum100", "litnum599",
              "litnum65535", "litnum65536", "litnum2p32", "litnum2p64m1"}
AllIndirections == {"direct", "let", "reflet", "idfn", "implet", "impfn"}
QuickIndirections == {"direct", "let", "idfn", "fnlocal", "fnimp"}
EveryIndirection == AllIndirections \cup {"fnlocal", "fnimp"}
EveryPosition == AllPositions \cup AllFnPositions

=============================================================================
