-------------------------------- MODULE LexMC --------------------------------
(***************************************************************************)
(* Families of texts for Lex.tla: every text of up to MaxLen characters    *)
(* over a sub-alphabet (one family per group of token kinds, as in         *)
(* PegMC.tla).  The reference's own properties are invariants; every text  *)
(* with its reference tokenisation is printed for the replay on the real   *)
(* lexer.  Oracle mode: texts supplied by the driver (IOEnv.TEXTS).        *)
(***************************************************************************)
EXTENDS Lex, Json, IOUtils

CONSTANTS Alphabet, MaxLen

AlphaWords  == {"n", "u", "m", "s", "t", "r", "X", "5", "_", "-", " "}                 \* keywords vs identifiers vs numbers vs status ranges
AlphaSlash  == {"/", "*", "a", "\n", " ", "%", "."}                                    \* root, segments, both kinds of comments
AlphaQuote  == {"\"", "`", "'", "#", "@", "a", "\n", "$", "é"}                         \* strings, annotations, properties, references, a 2-byte character
AlphaPunct  == {":", "-", ">", "=", ".", ",", "a", "1", "<", "!", "?"}                \* operators made of several characters
AlphaBlank  == {" ", "\t", "\r", "\n", "/", "a", "#"}                                   \* line ends inside and after comments and annotations
AlphaKey    == {"g", "e", "t", "a", "s", "o", "n", "u", "r", "c", "l"}                 \* get/let/res/rec/use/as/on/str... and their prefixes

VARIABLE text
\* the text grows by one character per step (states are then spread over TLC's workers)
Init == text = <<>>
Next == Len(text) < MaxLen /\ \E c \in Alphabet : text' = Append(text, c)

Toks == Lex(text)
Props ==
  /\ Assert(Tiles(text, Toks), <<"Tiles", text>>)
  /\ Assert(Genuine(text, Toks), <<"Genuine", text>>)
  /\ Assert(Maximal(text, Toks), <<"Maximal", text>>)
  /\ Assert(ErrorsJustified(text, Toks), <<"ErrorsJustified", text>>)
  /\ PrintT(<<"CASE", ToJson([text |-> text, toks |-> Toks])>>)

\* oracle mode
OracleTexts == ndJsonDeserialize(IOEnv.TEXTS)
OracleInit == \E i \in 1..Len(OracleTexts) : text = OracleTexts[i].chars
OracleProps == PrintT(<<"CASE", ToJson([text |-> text, toks |-> Toks])>>)
=============================================================================
