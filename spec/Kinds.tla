-------------------------------- MODULE Kinds --------------------------------
(***************************************************************************)
(* Kind (tag) inference and checking at program level:                     *)
(*   oal-compiler/src/inference/mod.rs   tag(), constrain(), substitute()  *)
(*   oal-compiler/src/typecheck.rs       type_check(), cycles_check()      *)
(* on the abstract syntax of Ast.tla with the binding relation of          *)
(* Resolve.tla.  Tag variables are identified by the node that owns them   *)
(* ([m, p]); constraints are generated in the traversal order of the code  *)
(* and solved by a Robinson unifier on a triangular substitution (the      *)
(* union-find implementation is checked equivalent to it in Unify.tla).    *)
(* Modules are compiled in dependency order; a variable bound to an        *)
(* imported declaration sees that declaration's substituted tag.           *)
(***************************************************************************)
EXTENDS Binding

\* ---- tags -------------------------------------------------------------------------------
TC(n)      == [k |-> "c", n |-> n, v |-> <<>>, b |-> <<>>]            \* constant tag
TV(m, p)   == [k |-> "v", n |-> m, v |-> p, b |-> <<>>]               \* variable owned by node p of module m
TP(t)      == [k |-> "p", n |-> "", v |-> <<>>, b |-> <<t>>]          \* property[t]
TF(bs, r)  == [k |-> "f", n |-> "", v |-> <<>>, b |-> Append(bs, r)]  \* function: bindings then range

FBindings(t) == SubSeq(t.b, 1, Len(t.b) - 1)
FRange(t)    == t.b[Len(t.b)]

\* ---- substitution: sequence of <<variable tag, tag>> bindings -----------------------------
RECURSIVE Bound(_, _, _)
Bound(s, i, t) == IF i = 0 THEN [k |-> "none"] ELSE IF s[i][1] = t THEN s[i][2] ELSE Bound(s, i - 1, t)

RECURSIVE Walk(_, _)
Walk(t, s) == IF t.k = "v" THEN LET b == Bound(s, Len(s), t) IN IF b.k = "none" THEN t ELSE Walk(b, s) ELSE t

RECURSIVE OccursIn(_, _, _)
OccursIn(v, t, s) ==
  LET w == Walk(t, s) IN
  IF w.k = "v" THEN w = v
  ELSE \E j \in 1..Len(w.b) : OccursIn(v, w.b[j], s)

FAILED == <<<<TC("fail"), TC("fail")>>>>

RECURSIVE Solve(_, _)
Solve(todo, s) ==
  IF todo = <<>> THEN s
  ELSE LET a == Walk(Head(todo)[1], s)
           b == Walk(Head(todo)[2], s)
           rest == Tail(todo)
       IN IF a = b THEN Solve(rest, s)
          ELSE IF a.k = "v" THEN IF OccursIn(a, b, s) THEN FAILED ELSE Solve(rest, Append(s, <<a, b>>))
          ELSE IF b.k = "v" THEN IF OccursIn(b, a, s) THEN FAILED ELSE Solve(rest, Append(s, <<b, a>>))
          ELSE IF a.k = b.k /\ a.k \in {"p", "f"} /\ Len(a.b) = Len(b.b)
               THEN Solve([j \in 1..Len(a.b) |-> <<a.b[j], b.b[j]>>] \o rest, s)
          ELSE FAILED

RECURSIVE Subst(_, _)
Subst(t, s) ==
  LET w == Walk(t, s) IN
  IF w.k \in {"p", "f"} THEN [w EXCEPT !.b = [j \in 1..Len(w.b) |-> Subst(w.b[j], s)]] ELSE w

\* ---- tagging (inference::tag) ----------------------------------------------------------------
\* `exports`: module -> (declaration path -> substituted tag) for the modules compiled before
NodeAt(prog, m, p) ==
  LET RECURSIVE Go(_, _)
      Go(nd, i) == IF i > Len(p) THEN nd ELSE Go(nd.a[p[i]], i + 1)
  IN Go(prog.mods[m][p[1]], 2)

ConcatTag == TF(<<TC("Uri"), TC("Uri")>>, TC("Uri"))

BinderTag(prog, m, b, exports) ==
  CASE b.kind = "internal" -> ConcatTag
    [] b.kind = "decl" /\ b.m # m -> exports[b.m][b.p]
    [] b.kind = "rec" -> TV(b.m, Append(b.p, 0))   \* the Binding node of the rec expression
    [] OTHER -> TV(b.m, b.p)                      \* declaration of this module, parameter

TagOf(prog, m, nd, p, table, exports) ==
  CASE nd.k = "lit"  -> TC(CASE nd.s = "num" -> "Number" [] nd.s = "str" -> "Text" [] OTHER -> "Status")
    [] nd.k = "prim" -> TC("Primitive")
    [] nd.k = "rel"  -> TC("Relation")
    [] nd.k = "uri"  -> TC("Uri")
    [] nd.k = "obj"  -> TC("Object")
    [] nd.k = "cnt"  -> TC("Content")
    [] nd.k = "xfer" -> TC("Transfer")
    [] nd.k = "arr"  -> TC("Array")
    [] nd.k = "op"   -> CASE nd.s = "&" -> TC("Object") [] nd.s = "~" -> TC("Any") [] nd.s = "::" -> TC("Content")
                          [] OTHER -> TV(m, p)
    [] nd.k \in {"un", "prop"} -> TP(TV(m, p))
    [] nd.k = "var"  -> BinderTag(prog, m, (CHOOSE r \in table : r.use = p).b, exports)
    [] OTHER -> TV(m, p)                          \* app, bind, rec, decl

\* ---- constraints (inference::constrain), in pre-order ---------------------------------------
T(prog, m, p, table, exports) == TagOf(prog, m, NodeAt(prog, m, p), p, table, exports)

RECURSIVE EqsOf(_, _, _, _, _, _)
EqsOf(prog, m, nd, p, table, ex) ==
  LET tg(q) == T(prog, m, q, table, ex)
      kid(i) == Append(p, i)
      own ==
        CASE nd.k = "rel" ->
               <<<<tg(kid(1)), TC("Uri")>>>> \o [j \in 1..(Len(nd.a) - 1) |-> <<tg(kid(j + 1)), TC("Transfer")>>]
          [] nd.k = "uri" ->
               LET nseg == Len(nd.a) - nd.n
                   vs == SelectSeq([j \in 1..nseg |-> j], LAMBDA j : nd.a[j].k = "uvar")
               IN [j \in 1..Len(vs) |-> <<tg(Append(kid(vs[j]), 1)), TP(TC("Primitive"))>>]
                  \o (IF nd.n = 1 THEN <<<<tg(kid(Len(nd.a))), TC("Object")>>>> ELSE <<>>)
          [] nd.k = "prop" -> <<<<tg(p), TP(tg(kid(1)))>>>>
          [] nd.k = "cnt" ->
               LET ms == SelectSeq([j \in 1..nd.n |-> j], LAMBDA j : nd.a[j].s \in {"headers", "media"})
               IN [j \in 1..Len(ms) |-> <<tg(Append(kid(ms[j]), 1)), IF nd.a[ms[j]].s = "headers" THEN TC("Object") ELSE TC("Text")>>]
          [] nd.k = "xfer" -> IF nd.n \in {1, 3} THEN <<<<tg(kid(1)), TC("Object")>>>> ELSE <<>>
          [] nd.k = "op" ->
               IF nd.s = "&" THEN [j \in 1..Len(nd.a) |-> <<tg(kid(j)), TC("Object")>>]
               ELSE IF nd.s = "|" THEN [j \in 1..Len(nd.a) |-> <<tg(kid(j)), tg(p)>>]
               ELSE <<>>
          [] nd.k = "un" -> <<<<tg(p), tg(kid(1))>>>>
          [] nd.k = "decl" ->
               <<<<tg(p), IF nd.n = 0 THEN tg(kid(1)) ELSE TF([j \in 1..nd.n |-> tg(kid(j))], tg(kid(nd.n + 1)))>>>>
          [] nd.k = "app" ->
               <<<<tg(kid(1)), TF([j \in 1..(Len(nd.a) - 1) |-> tg(kid(j + 1))], tg(p))>>>>
          [] nd.k = "rec" -> <<<<tg(p), TV(m, Append(p, 0))>>, <<tg(p), tg(kid(1))>>>>
          [] OTHER -> <<>>
      RECURSIVE Kids(_)
      Kids(i) == IF i > Len(nd.a) THEN <<>>
                 ELSE EqsOf(prog, m, nd.a[i], kid(i), table, ex) \o Kids(i + 1)
  IN own \o Kids(1)

RECURSIVE ModEqs(_, _, _, _, _)
ModEqs(prog, m, i, table, ex) ==
  IF i > Len(prog.mods[m]) THEN <<>>
  ELSE EqsOf(prog, m, prog.mods[m][i], <<i>>, table, ex) \o ModEqs(prog, m, i + 1, table, ex)

\* ---- kind predicates (typecheck.rs TagWrap) ---------------------------------------------------
IsVar(t)      == t.k = "v"
IsC(t, n)     == t.k = "c" /\ t.n = n
IsSchema(t)   == IsVar(t) \/ (t.k = "c" /\ t.n \in {"Primitive", "Relation", "Object", "Array", "Uri", "Any"})
IsContentLike(t) == IsSchema(t) \/ IsC(t, "Content")
IsStatusLike(t)  == IsVar(t) \/ IsC(t, "Status") \/ IsC(t, "Number")
IsRelationLike(t) == IsVar(t) \/ IsC(t, "Relation") \/ IsC(t, "Uri")
IsObject(t)   == IsVar(t) \/ IsC(t, "Object")
IsProperty(t) == IsVar(t) \/ t.k = "p"
IsPrimProp(t) == IsVar(t) \/ (t.k = "p" /\ IsC(t.b[1], "Primitive"))
IsText(t)     == IsVar(t) \/ IsC(t, "Text")
IsUri(t)      == IsVar(t) \/ IsC(t, "Uri")
IsTransfer(t) == IsVar(t) \/ IsC(t, "Transfer")
Referential(t) == IsSchema(t) /\ ~IsUri(t)

\* all node paths of a module in pre-order (declarations skip their bindings, as they carry no check)
RECURSIVE PathsOf(_, _)
PathsOf(nd, p) ==
  <<p>> \o (LET RECURSIVE Kids(_)
                Kids(i) == IF i > Len(nd.a) THEN <<>> ELSE PathsOf(nd.a[i], Append(p, i)) \o Kids(i + 1)
            IN Kids(1))
RECURSIVE ModPaths(_, _, _)
ModPaths(prog, m, i) == IF i > Len(prog.mods[m]) THEN <<>> ELSE PathsOf(prog.mods[m][i], <<i>>) \o ModPaths(prog, m, i + 1)

\* type_check of one node, given the substituted tag function st(path)
NodeOK(prog, m, p, st(_)) ==
  LET nd == NodeAt(prog, m, p)
      kid(i) == Append(p, i)
  IN CASE nd.k = "op" ->
            IF nd.s = "&" THEN \A j \in 1..Len(nd.a) : IsObject(st(kid(j)))
            ELSE IF nd.s = "::" THEN \A j \in 1..Len(nd.a) : IsContentLike(st(kid(j)))
            ELSE \A j \in 1..Len(nd.a) : IsSchema(st(kid(j)))
       [] nd.k = "un" -> IsProperty(st(kid(1)))
       [] nd.k = "cnt" ->
            /\ \A j \in 1..nd.n :
                 LET t == st(Append(kid(j), 1)) IN
                 CASE nd.a[j].s = "media" -> IsText(t) [] nd.a[j].s = "headers" -> IsSchema(t) [] OTHER -> IsStatusLike(t)
            /\ Len(nd.a) > nd.n => IsSchema(st(kid(nd.n + 1)))
       [] nd.k = "xfer" ->
            /\ nd.n \in {2, 3} => IsContentLike(st(kid(IF nd.n = 3 THEN 2 ELSE 1)))
            /\ IsContentLike(st(kid(Len(nd.a))))
       [] nd.k = "rel" -> IsUri(st(kid(1))) /\ \A j \in 2..Len(nd.a) : IsTransfer(st(kid(j)))
       [] nd.k = "uri" -> \A j \in 1..(Len(nd.a) - nd.n) : nd.a[j].k = "uvar" => IsPrimProp(st(Append(kid(j), 1)))
       [] nd.k = "arr" -> IsSchema(st(kid(1)))
       [] nd.k = "prop" -> IsSchema(st(kid(1)))
       [] nd.k = "obj" -> \A j \in 1..Len(nd.a) : IsProperty(st(kid(j)))
       [] nd.k = "decl" -> nd.q = "@" => IsSchema(st(kid(nd.n + 1)))      \* q = "@" marks a reference declaration
       [] nd.k = "res" -> IsRelationLike(st(kid(1)))
       [] nd.k = "rec" -> IsSchema(st(p)) /\ ~IsUri(st(p))
       [] OTHER -> TRUE

\* ---- cycles_check: declarative characterisation -------------------------------------------------
\* edges of the definition graph of module m: declaration -> every external binder used in its body
DefEdges(prog, m, table) ==
  {<<[m |-> m, p |-> <<r.use[1]>>], [m |-> r.b.m, p |-> r.b.p]>> :
     r \in {x \in table : prog.mods[m][x.use[1]].k = "decl" /\ x.b.kind \notin {"internal", "none"}}}

RECURSIVE Closure(_, _, _)
Closure(G, S, n) == IF n = 0 THEN S ELSE Closure(G, S \cup {e[2] : e \in {d \in G : d[1] \in S}}, n - 1)
OnCycleIn(G, x) == x \in Closure(G, {e[2] : e \in {d \in G : d[1] = x}}, Cardinality(G) + 1)

\* ---- compilation of one module ----------------------------------------------------------------
\* result: [ok, phase, tags: path -> substituted tag (as a set of <<path, tag>>), rec: set of recursive decl paths, exports]
CompileModule(prog, m, exports) ==
  LET rr == RefResolve(prog, m) IN
  IF rr.err # "" THEN [ok |-> FALSE, phase |-> rr.err, exports |-> <<>>, rec |-> {}]
  ELSE
  LET table == rr.table
      eqs == ModEqs(prog, m, 1, table, exports)
      s == Solve(eqs, <<>>)
  IN IF s = FAILED THEN [ok |-> FALSE, phase |-> "unify", exports |-> <<>>, rec |-> {}]
     ELSE
     LET st(p) == Subst(T(prog, m, p, table, exports), s)
         DG == DefEdges(prog, m, table)
         nodes == {e[1] : e \in DG} \cup {e[2] : e \in DG}
         tagOfDef(x) == IF x.m = m THEN st(x.p) ELSE exports[x.m][x.p]
         refl(x) == Referential(tagOfDef(x))
         nonref == {e \in DG : ~refl(e[1]) /\ ~refl(e[2])}
         badCycle == \E x \in nodes : ~refl(x) /\ OnCycleIn(nonref, x)
         recs == {x.p : x \in {y \in nodes : y.m = m /\ refl(y) /\ OnCycleIn(DG, y)}}
         paths == ModPaths(prog, m, 1)
     IN IF badCycle THEN [ok |-> FALSE, phase |-> "cycles", exports |-> <<>>, rec |-> {}]
        ELSE IF \E j \in 1..Len(paths) : ~NodeOK(prog, m, paths[j], st)
        THEN [ok |-> FALSE, phase |-> "typecheck", exports |-> <<>>, rec |-> {}]
        ELSE [ok |-> TRUE, phase |-> "",
              exports |-> [p \in {<<i>> : i \in {j \in 1..Len(prog.mods[m]) : prog.mods[m][j].k = "decl"}} |-> st(p)],
              rec |-> recs]

\* modules in dependency order (imports first); the families have acyclic imports
ImportsOf(prog, m) == {u.s : u \in {prog.mods[m][i] : i \in {j \in 1..Len(prog.mods[m]) : prog.mods[m][j].k = "use"}}}
RECURSIVE Order(_, _, _)
Order(prog, done, todo) ==
  IF todo = {} THEN <<>>
  ELSE LET m == CHOOSE x \in todo : ImportsOf(prog, x) \cap todo = {} IN <<m>> \o Order(prog, Append(done, m), todo \ {m})
RECURSIVE ReachMods(_, _, _)
ReachMods(prog, S, n) == IF n = 0 THEN S ELSE ReachMods(prog, S \cup UNION {ImportsOf(prog, x) : x \in S}, n - 1)
LoadedModules(prog) == ReachMods(prog, {prog.main}, Cardinality(DOMAIN prog.mods))

\* compile all modules; returns [ok, phase, mod (failing module), results: module -> result]
RECURSIVE CompileAll(_, _, _, _)
CompileAll(prog, order, i, acc) ==
  IF i > Len(order) THEN [ok |-> TRUE, phase |-> "", mod |-> "", res |-> acc]
  ELSE LET m == order[i]
           exports == [x \in DOMAIN acc |-> acc[x].exports]
           r == CompileModule(prog, m, exports)
       IN IF ~r.ok THEN [ok |-> FALSE, phase |-> r.phase, mod |-> m, res |-> acc]
          ELSE CompileAll(prog, order, i + 1, [x \in DOMAIN acc \cup {m} |-> IF x = m THEN r ELSE acc[x]])

Compile(prog) == CompileAll(prog, Order(prog, <<>>, LoadedModules(prog)), 1, <<>>)
Accepted(prog) == Compile(prog).ok

\* the class of error of the real compiler
ErrorClass(phase) == CASE phase \in {"NotInScope", "InvalidIdentifier"} -> phase
                       [] phase \in {"unify", "cycles", "typecheck"} -> "InvalidType"
                       [] OTHER -> ""
=============================================================================
