----------------------------- MODULE LoaderTrace -----------------------------
(***************************************************************************)
(* Trace validation for Loader.tla: the call sequence recorded from the    *)
(* real module::load (driven with a recording Loader) must be a behaviour  *)
(* of the specification.  Events (ndjson, several runs concatenated):      *)
(*   {e:"init", G:{m:[targets]}, broken:[..]}                              *)
(*   {e:"load", m} {e:"parse", m} {e:"is_valid", t, ok} {e:"compile", m}   *)
(*   {e:"result", kind, target}                                            *)
(* Pop, ScanDone, Link, LinkDone, Toposort and Finish make no call and are *)
(* silent steps; the topological order petgraph chose is read ahead from   *)
(* the compile events and must satisfy the specification's IsTopo.         *)
(***************************************************************************)
EXTENDS Loader, IOUtils

Rec == ndJsonDeserialize(IOEnv.TRACE)

VARIABLE l
tvars == <<vars, l>>

AsSet(s) == {s[j] : j \in 1..Len(s)}

Fresh(r) ==
  /\ G' = r.G /\ broken' = AsSet(r.broken)
  /\ pc' = "load_main" /\ deps' = {} /\ nodes' = <<>> /\ edges' = {} /\ queue' = <<>> /\ cur' = Main
  /\ imports' = <<>> /\ i' = 1 /\ pending' = Main /\ order' = <<>> /\ ci' = 1
  /\ loaded' = <<>> /\ parsed' = <<>> /\ valids' = <<>> /\ compiled' = <<>>
  /\ result' = [kind |-> "run"]

TraceInit ==
  /\ Rec[1].e = "init"
  /\ G = Rec[1].G /\ broken = AsSet(Rec[1].broken)
  /\ pc = "load_main" /\ deps = {} /\ nodes = <<>> /\ edges = {} /\ queue = <<>> /\ cur = Main
  /\ imports = <<>> /\ i = 1 /\ pending = Main /\ order = <<>> /\ ci = 1
  /\ loaded = <<>> /\ parsed = <<>> /\ valids = <<>> /\ compiled = <<>>
  /\ result = [kind |-> "run"]
  /\ l = 2
  /\ TLCSet(1, 2)

IsEvent(e) == l <= Len(Rec) /\ Rec[l].e = e /\ l' = l + 1

\* a new run starts only after the previous one reported its result
TraceReset == IsEvent("init") /\ pc = "reported" /\ Fresh(Rec[l])

TraceLoad ==
  /\ IsEvent("load")
  /\ \/ LoadMain /\ Rec[l].m = Main
     \/ Load /\ pending' = Rec[l].m

TraceParse ==
  /\ IsEvent("parse")
  /\ \/ ParseMain /\ Rec[l].m = Main
     \/ Parse /\ pending = Rec[l].m

TraceIsValid ==
  /\ IsEvent("is_valid")
  /\ ScanImport
  /\ G[cur][i] = Rec[l].t
  /\ Rec[l].ok = (Rec[l].t \in DOMAIN G)

TraceCompile ==
  /\ IsEvent("compile")
  /\ CompileNext
  /\ order[ci] = Rec[l].m

TraceResult ==
  /\ IsEvent("result")
  /\ pc = "done"
  /\ result.kind = Rec[l].kind
  /\ (result.kind \in {"missing", "syntax"} => result.target = Rec[l].target)
  /\ pc' = "reported"
  /\ UNCHANGED <<G, broken, deps, nodes, edges, queue, cur, imports, i, pending, order, ci,
                 loaded, parsed, valids, compiled, result>>

\* the run of compile events starting at position k
RECURSIVE CompileRun(_)
CompileRun(k) == IF k <= Len(Rec) /\ Rec[k].e = "compile" THEN <<Rec[k].m>> \o CompileRun(k + 1) ELSE <<>>

TraceToposort ==
  /\ pc = "pop" /\ queue = <<>>
  /\ IF GraphCyclic
     THEN result' = [kind |-> "cycle"] /\ pc' = "done" /\ UNCHANGED <<order, ci>>
     ELSE /\ order' = CompileRun(l)
          /\ IsTopo(order')
          /\ ci' = 1 /\ pc' = "compile" /\ UNCHANGED result
  /\ UNCHANGED <<G, broken, deps, nodes, edges, queue, cur, imports, i, pending, loaded, parsed, valids, compiled>>

Silent == (Pop \/ ScanDone \/ Link \/ LinkDone \/ TraceToposort \/ Finish) /\ UNCHANGED l

TraceNext == TraceReset \/ TraceLoad \/ TraceParse \/ TraceIsValid \/ TraceCompile \/ TraceResult \/ Silent

TraceSpec == TraceInit /\ [][TraceNext]_tvars

\* highest trace position reached (needs -workers 1)
TrackL == IF l > TLCGet(1) THEN TLCSet(1, l) ELSE TRUE

TraceAccepted ==
  LET reached == TLCGet(1) IN
  IF reached = Len(Rec) + 1 THEN TRUE
  ELSE /\ PrintT(<<"REJECTED", ToJson([at |-> reached, event |-> Rec[reached]])>>)
       /\ FALSE

(***************************************************************************)
(* Monitor mode: the observable outcome of a real run (call logs + result) *)
(* is installed as a final state and judged by the specification's own     *)
(* property definitions (OnceSoFar, Verdict, ExactlyOnce, ImportsFirst),   *)
(* independently of the order in which the implementation explores.        *)
(***************************************************************************)
ObsRec == ndJsonDeserialize(IOEnv.OBS)

ObsInit ==
  /\ l \in 1..Len(ObsRec)
  /\ LET r == ObsRec[l] IN
     /\ G = r.G /\ broken = AsSet(r.broken)
     /\ loaded = r.loaded /\ parsed = r.parsed /\ valids = r.valids /\ compiled = r.compiled
     /\ result = [kind |-> r.kind, target |-> r.target]
  /\ pc = "done" /\ deps = {} /\ nodes = <<>> /\ edges = {} /\ queue = <<>> /\ cur = Main
  /\ imports = <<>> /\ i = 1 /\ pending = Main /\ order = <<>> /\ ci = 1

ObsNext == UNCHANGED tvars

ObsJudged == PrintT(<<"JUDGED", ToJson([l |-> l])>>)
=============================================================================
