---------------------------------- MODULE Den ----------------------------------
(***************************************************************************)
(* Reference semantics of Oxlip programs: what document a program DENOTES. *)
(* It is deliberately not a model of eval.rs:                              *)
(*  - identifiers are resolved statically with the binding relation of     *)
(*    Binding.tla and looked up in a LEXICAL environment of thunks keyed   *)
(*    by binder identity (call by name), not by name on a dynamic stack;   *)
(*  - recursion (rec expressions, cyclic declarations) is given by         *)
(*    unfolding: the denotation is a regular, possibly infinite tree,      *)
(*    produced here up to a structural depth K (deeper levels are the      *)
(*    marker "..."); implicit components and their names do not exist at   *)
(*    this level;                                                          *)
(*  - explicit references (@name) are kept as named references, and the    *)
(*    components a document must define are the @declarations it uses.     *)
(* The abstract document is a set of path items; schemas are uniform       *)
(* records [t, n, fl, kids].                                               *)
(* Annotations: every expression is evaluated with the annotations that   *)
(* reach it from outside (I); the annotations written on the term itself   *)
(* win over them; a use of a declared name passes its annotations on to    *)
(* the declaration's right-hand side, where they win over the annotations  *)
(* written on the declaration line; a use of a parameter evaluates the     *)
(* argument expression as if it were written in place (call by name, with  *)
(* the annotations of the use site reaching it); components of a           *)
(* construct start with no annotations.  Each construct takes the keys     *)
(* that have a place in an OpenAPI document: schemas description, title    *)
(* and the facets of their type; properties description and required;      *)
(* contents description; transfers description, summary, tags, operationId.*)
(***************************************************************************)
EXTENDS Binding

CONSTANTS K,          \* structural depth up to which schemas are unfolded
          MaxHops,    \* bound on consecutive reference hops without structure (alias chains)
          ParamPrecedence   \* "term": an argument reached through a parameter keeps what is written on it (as everywhere else);
                            \* "use": the annotations reaching the parameter's use win over it (what eval_binding does - the pinned behaviour)

\* ---- abstract schemas ---------------------------------------------------------------------
Sch(t, n, fl, kids) == [t |-> t, n |-> n, fl |-> fl, kids |-> kids, an |-> <<>>]

\* ---- annotations: sequences of [key, val, ty]; a later entry of the same key wins ---------------
AKeys(a) == {a[i].key : i \in 1..Len(a)}
AExt(base, over) == SelectSeq(base, LAMBDA e : e.key \notin AKeys(over)) \o over        \* `over` wins
RECURSIVE ADedup(_)
ADedup(a) == IF a = <<>> THEN <<>> ELSE AExt(<<a[1]>>, ADedup(Tail(a)))                  \* the last entry of a key stands
\* the annotations written on a node: line annotations first, then the inline one
Own(nd) == LET norm(e) == [key |-> e.key, val |-> e.val, ty |-> e.ty] IN
           ADedup([i \in 1..Len(SelectSeq(nd.ann, LAMBDA e : e.w = "line")) |-> norm(SelectSeq(nd.ann, LAMBDA e : e.w = "line")[i])]
                  \o [i \in 1..Len(SelectSeq(nd.ann, LAMBDA e : e.w # "line")) |-> norm(SelectSeq(nd.ann, LAMBDA e : e.w # "line")[i])])
AHas(a, k) == k \in AKeys(a)
AGet(a, k) == (CHOOSE i \in 1..Len(a) : a[i].key = k /\ \A j \in (i + 1)..Len(a) : a[j].key # k)
AVal(a, k) == IF AHas(a, k) THEN a[AGet(a, k)].val ELSE ""
Pick(a, keys) == SelectSeq(a, LAMBDA e : e.key \in keys)
SchemaKeys(t) ==
  {"description", "title", "required"} \cup
  (CASE t \in {"number", "integer"} -> {"minimum", "maximum", "multipleOf", "example"}
     [] t = "string" -> {"pattern", "enum", "format", "example", "minLength", "maxLength"}
     [] OTHER -> {})
WithAn(s, J) == [s EXCEPT !.an = Pick(J, SchemaKeys(s.t))]
\* a marker at the head of the incoming annotations: they win over what is written on the term they reach
PwMark == [key |-> "__pw__", val |-> "", ty |-> ""]
HasPw(I) == I # <<>> /\ I[1].key = "__pw__"
NoPw(I) == IF HasPw(I) THEN Tail(I) ELSE I
Fwd(I, X) == IF HasPw(I) THEN <<PwMark>> \o X ELSE X
Cut == Sch("...", "", 0, <<>>)
Leaf(t) == Sch(t, "", 0, <<>>)
PropS(name, req, s) == Sch("prop", name, req, <<s>>)

\* ---- values ---------------------------------------------------------------------------------
VSchema(s)  == [vk |-> "schema", s |-> s]
VProp(p)    == [vk |-> "prop", s |-> p]                               \* p: a PropS
VText(x)    == [vk |-> "text", x |-> x]
VNum(x)     == [vk |-> "num", x |-> x]
VStatus(x)  == [vk |-> "status", x |-> x]
VUriA(segs, params, an) == [vk |-> "uri", segs |-> segs, params |-> params, an |-> an]  \* segs: seq of [k, n, s]; params: seq of PropS
VUri(segs, params) == VUriA(segs, params, <<>>)
VContent(c) == [vk |-> "content", c |-> c]                              \* c: [body (seq of 0/1 schema), status, media, headers]
VRanges(cs) == [vk |-> "ranges", cs |-> cs]
VXfer(x)    == [vk |-> "xfer", x |-> x]                                 \* [methods, params, domain (seq 0/1 content), ranges]
VRelA(u, xs, an) == [vk |-> "rel", u |-> u, xs |-> xs, an |-> an]
VRel(u, xs) == VRelA(u, xs, <<>>)
VFun(m, p)  == [vk |-> "fun", m |-> m, p |-> p]
VConcat     == [vk |-> "concat"]
\* an explicit reference and the value it stands for; dd: the description that reaches the reference itself (declaration
\* line and use site), which the evaluator copies to a content made of the bare reference
VNamedA(name, u, dd) == [vk |-> "named", s |-> Sch("ref", name, 0, <<>>), u |-> u, dd |-> dd]
VNamed(name, u) == VNamedA(name, u, "")
VBottom(w)  == [vk |-> "bottom", w |-> w]                               \* outside the fragment / ill-kinded

\* desc: the description written on the content; sdesc: the description of a schema used directly as the content (the
\* evaluator copies it to the content when the schema is inline, not when it is a recursion point: either is accepted)
ContentA(body, status, media, headers, desc) == [body |-> body, status |-> status, media |-> media, headers |-> headers, desc |-> desc, sdesc |-> "", sdesc2 |-> ""]
Content(body, status, media, headers) == ContentA(body, status, media, headers, "")

\* a value used where a schema is expected
\* where a schema is wanted an explicit reference stays a reference; elsewhere it is the value it names
RECURSIVE Und(_)
Und(v) == IF v.vk = "named" THEN Und(v.u) ELSE v          \* through chains of references (`let @d2 = @d1;`)
AsSchema(v) ==
  CASE v.vk \in {"schema", "named"} -> v.s
    [] v.vk \in {"uri", "rel"} -> WithAn(Leaf("uri"), v.an)
    [] OTHER -> Sch("BOTTOM", v.vk, 0, <<>>)
\* a schema used where a content is expected: a content with that body; the schema's description is the content's too
AsContent(v) == IF v.vk = "content" THEN v.c
                ELSE [ContentA(<<AsSchema(v)>>, "", "", <<>>, "") EXCEPT !.sdesc = AVal(AsSchema(Und(v)).an, "description"),
                                                                         !.sdesc2 = IF v.vk = "named" THEN v.dd ELSE ""]
AsRanges(v) == IF v.vk = "ranges" THEN v.cs ELSE <<AsContent(v)>>
\* the ranges of a transfer are a map keyed by (status, media type) as written: of two contents with the same key the later
\* one stands (the language's rule for `::`, like a later property of the same name in `&`)
RECURSIVE LastWins(_, _)
LastWins(cs, i) ==
  IF i > Len(cs) THEN <<>>
  ELSE (IF \E j \in (i + 1)..Len(cs) : cs[j].status = cs[i].status /\ cs[j].media = cs[i].media THEN <<>> ELSE <<cs[i]>>) \o LastWins(cs, i + 1)
SegLit(n) == [k |-> "lit", n |-> n, s |-> Cut, d |-> ""]
SegVar(p) == [k |-> "var", n |-> p.n, s |-> p.kids[1], d |-> AVal(p.an, "description")]
AsUri(v) == LET w == Und(v) IN IF w.vk = "rel" THEN w.u ELSE IF w.vk = "uri" THEN w ELSE VUri(<<SegLit("BOTTOM")>>, <<>>)
AsProps(v) == LET w == Und(v) IN IF w.vk = "schema" /\ w.s.t = "object" THEN w.s.kids ELSE <<>>


\* concat: the trailing empty segment of the left URI is dropped; parameters are the right URI's
Concat(l, r) ==
  LET ls == IF l.segs # <<>> /\ l.segs[Len(l.segs)].k = "lit" /\ l.segs[Len(l.segs)].n = ""
            THEN SubSeq(l.segs, 1, Len(l.segs) - 1) ELSE l.segs
  IN VUriA(ls \o r.segs, r.params, r.an)

\* ---- environments: sequence of frames [b: binder, kind: "thunk" | "rec", m, p, env] -------------
FrameA(b, kind, m, p, env, an) == [b |-> b, kind |-> kind, m |-> m, p |-> p, env |-> env, an |-> an]
Frame(b, kind, m, p, env) == FrameA(b, kind, m, p, env, <<>>)

RECURSIVE FindFrame(_, _, _)
FindFrame(env, i, b) == IF i = 0 THEN 0 ELSE IF env[i].b = b THEN i ELSE FindFrame(env, i - 1, b)

NodeOf(prog, m, p) ==
  LET RECURSIVE Go(_, _)
      Go(nd, i) == IF i > Len(p) THEN nd ELSE Go(nd.a[p[i]], i + 1)
  IN Go(prog.mods[m][p[1]], 2)

\* D(prog, tables, m, p, env, d, h, I): the value of the expression at path p of module m;
\* d: structural depth so far; h: reference hops since the last structure; I: the annotations reaching the expression
RECURSIVE D(_, _, _, _, _, _, _, _)
D(prog, tables, m, p, env, d, h, I) ==
  LET nd == NodeOf(prog, m, p)
      J == IF HasPw(I) THEN AExt(Own(nd), NoPw(I)) ELSE AExt(I, Own(nd))                         \* what is written on the term wins (unless marked)
      sub(i, dd) == D(prog, tables, m, Append(p, i), env, dd, IF dd > d THEN 0 ELSE h, <<>>)     \* hops are reset by structure only
      schemaAt(i) == IF d >= K THEN Cut ELSE AsSchema(sub(i, d + 1))
      xferBottom == [methods |-> "BOTTOM", params |-> <<>>, domain |-> <<>>, ranges |-> <<>>, desc |-> "", summary |-> "", tags |-> "", id |-> ""]
  IN
  CASE nd.k = "prim" -> IF nd.s = "uri" THEN VUriA(<<>>, <<>>, J)
                        ELSE VSchema(WithAn(Leaf(CASE nd.s = "num" -> "number" [] nd.s = "str" -> "string" [] nd.s = "bool" -> "boolean" [] OTHER -> "integer"), J))
    [] nd.k = "lit" -> CASE nd.s = "num" -> VNum(nd.q) [] nd.s = "str" -> VText(nd.q) [] OTHER -> VStatus(nd.q)
    [] nd.k = "obj" ->
         VSchema(WithAn(Sch("object", "", 0, [j \in 1..Len(nd.a) |->
                       LET v == sub(j, d) IN IF v.vk = "prop" THEN v.s ELSE PropS("BOTTOM", 0, Cut)]), J))
    [] nd.k = "prop" ->
         \* required: the annotation, else the mark; without either, a `required` annotation of the value's schema decides
         \* for a property of an object schema (fl = 2) but is not consulted for parameters and headers (the emitter reads
         \* it only in object_type: a deviation the language does not settle, mirrored here and named in DESIGN.md)
         LET sc == schemaAt(1)
             fl == IF AHas(J, "required") THEN (IF AVal(J, "required") = "true" THEN 1 ELSE 0)
                   ELSE IF nd.n = 1 THEN 1 ELSE IF nd.n = 2 THEN 0
                   ELSE IF AVal(sc.an, "required") = "true" THEN 2 ELSE 0
         IN VProp([PropS(nd.s, fl, sc) EXCEPT !.an = Pick(J, {"description"})])
    [] nd.k = "un" -> LET v == Und(sub(1, d)) IN
                      IF v.vk = "prop" THEN VProp([v.s EXCEPT !.fl = IF nd.s = "!" THEN 1 ELSE 0]) ELSE VBottom("un")
    [] nd.k = "arr" -> VSchema(WithAn(Sch("array", "", 0, <<schemaAt(1)>>), J))
    [] nd.k = "op" ->
         IF nd.s = "::"
         THEN LET RECURSIVE Cat(_)
                  Cat(j) == IF j > Len(nd.a) THEN <<>> ELSE AsRanges(sub(j, d)) \o Cat(j + 1)
              IN VRanges(Cat(1))
         ELSE VSchema(WithAn(Sch(CASE nd.s = "&" -> "allOf" [] nd.s = "~" -> "anyOf" [] OTHER -> "oneOf", "", 0,
                                 [j \in 1..Len(nd.a) |-> schemaAt(j)]), J))
    [] nd.k = "cnt" ->
         LET meta(t) == {j \in 1..nd.n : nd.a[j].s = t}
             mval(t) == D(prog, tables, m, Append(Append(p, CHOOSE j \in meta(t) : \A j2 \in meta(t) : j2 <= j), 1), env, d, 0, <<>>)
             hasBody == Len(nd.a) > nd.n
             status == IF meta("status") # {} THEN LET v == mval("status") IN (IF v.vk \in {"num", "status"} THEN v.x ELSE "BOTTOM")
                       ELSE IF hasBody THEN "" ELSE "204"
             media == IF meta("media") # {} THEN LET v == mval("media") IN (IF v.vk = "text" THEN v.x ELSE "BOTTOM") ELSE ""
             headers == IF meta("headers") # {} THEN AsProps(mval("headers")) ELSE <<>>
         IN VContent(ContentA(IF hasBody THEN <<AsSchema(sub(nd.n + 1, d))>> ELSE <<>>, status, media, headers, AVal(J, "description")))
    [] nd.k = "uri" ->
         LET nseg == Len(nd.a) - nd.n IN
         VUriA([j \in 1..nseg |-> IF nd.a[j].k = "seg" THEN SegLit(nd.a[j].s)
                                  ELSE LET v == D(prog, tables, m, Append(Append(p, j), 1), env, d, 0, <<>>)
                                       IN IF v.vk = "prop" THEN SegVar(v.s) ELSE SegLit("BOTTOM")],
               IF nd.n = 1 THEN AsProps(sub(Len(nd.a), d)) ELSE <<>>, J)
    [] nd.k = "xfer" ->
         LET hasP == nd.n \in {1, 3}
             hasD == nd.n \in {2, 3}
             di == IF nd.n = 3 THEN 2 ELSE 1
         IN VXfer([methods |-> nd.s,
                   params |-> IF hasP THEN AsProps(sub(1, d)) ELSE <<>>,
                   domain |-> IF hasD THEN <<AsContent(sub(di, d))>> ELSE <<>>,
                   ranges |-> LastWins(AsRanges(sub(Len(nd.a), d)), 1),
                   desc |-> AVal(J, "description"), summary |-> AVal(J, "summary"), tags |-> AVal(J, "tags"), id |-> AVal(J, "operationId")])
    [] nd.k = "rel" ->
         LET u == AsUri(sub(1, d)) IN
         VRelA(u, [j \in 1..(Len(nd.a) - 1) |-> LET v == sub(j + 1, d) IN IF v.vk = "xfer" THEN v.x ELSE xferBottom], J)
    [] nd.k = "rec" ->
         \* the frame remembers the annotations the rec expression was entered with: every unfolding carries them
         D(prog, tables, m, Append(p, 1), Append(env, FrameA(B(m, p, "rec"), "rec", m, p, env, I)), d, h, J)
    [] nd.k = "var" ->
         LET b == (CHOOSE r \in tables.t[m] : r.use = p).b IN
         CASE b.kind = "internal" -> VConcat
           [] b.kind \in {"param", "rec"} ->
                LET i == FindFrame(env, Len(env), b) IN
                IF i = 0 THEN VBottom("unbound")
                ELSE IF h >= MaxHops THEN VSchema(Cut)
                ELSE LET f == env[i] IN
                     IF f.kind = "rec" THEN D(prog, tables, f.m, f.p, f.env, d, h + 1, f.an)      \* unfold the rec expression again
                     ELSE D(prog, tables, f.m, f.p, f.env, d, h + 1,                            \* the argument, as if written here
                            IF ParamPrecedence = "use" THEN <<PwMark>> \o J ELSE Fwd(I, J))
           [] OTHER ->
                LET dc == prog.mods[b.m][b.p[1]]
                    \* the use site wins over the declaration line; a recursive declaration is a component shared by all
                    \* its uses (like an explicit reference): it carries its own annotations only
                    I2 == IF b.p[1] \in tables.rec[b.m] THEN Own(dc) ELSE Fwd(I, AExt(Own(dc), J))
                IN
                IF dc.n > 0 THEN VFun(b.m, b.p)
                ELSE IF dc.q = "@"
                THEN VNamedA(dc.s, IF h >= MaxHops THEN VSchema(Cut) ELSE D(prog, tables, b.m, <<b.p[1], 1>>, <<>>, d, h + 1, Own(dc)),
                              AVal(AExt(Own(dc), J), "description"))
                ELSE IF h >= MaxHops THEN VSchema(Cut)
                ELSE D(prog, tables, b.m, <<b.p[1], 1>>, <<>>, d, h + 1, I2)
    [] nd.k = "app" ->
         LET f == sub(1, d) IN
         IF Und(f).vk = "concat"
         THEN LET l == AsUri(sub(2, d))  r == AsUri(sub(3, d)) IN IF l.vk = "uri" /\ r.vk = "uri" THEN Concat(l, r) ELSE VBottom("concat")
         ELSE IF f.vk = "fun"
         THEN LET dc == prog.mods[f.m][f.p[1]]
                  k == IF Len(nd.a) - 1 < dc.n THEN Len(nd.a) - 1 ELSE dc.n
              IN D(prog, tables, f.m, <<f.p[1], dc.n + 1>>,
                   [j \in 1..k |-> Frame(B(f.m, <<f.p[1], j>>, "param"), "thunk", m, Append(p, j + 1), env)], d, h, Fwd(I, AExt(Own(dc), J)))
         ELSE VBottom("apply")
    [] OTHER -> VBottom(nd.k)

\* ---- the document -----------------------------------------------------------------------------
\* the binding tables of all modules, and the declarations that lie on a cycle of the definition graph of their module
\* (imports are acyclic): those become components shared by all their uses
DeclEdges(prog, m, t) == {<<r.use[1], r.b.p[1]>> : r \in {x \in t : prog.mods[m][x.use[1]].k = "decl" /\ x.b.kind = "decl" /\ x.b.m = m}}
RECURSIVE DReach(_, _, _)
DReach(G, S, n) == IF n = 0 THEN S ELSE DReach(G, S \cup {e[2] : e \in {d \in G : d[1] \in S}}, n - 1)
RecDeclsOf(prog, m, t) == LET G == DeclEdges(prog, m, t) IN
  {i \in {e[1] : e \in G} : i \in DReach(G, {e[2] : e \in {d \in G : d[1] = i}}, Cardinality(G) + 1)}
Tables(prog) == LET t == [m \in DOMAIN prog.mods |-> RefTable(prog, m)] IN
  [t |-> t, rec |-> [m \in DOMAIN prog.mods |-> RecDeclsOf(prog, m, t[m])]]

\* one path item per resource of the main module
PathItem(v) ==
  LET w == Und(v)
      rel == IF w.vk = "rel" THEN w ELSE VRel(AsUri(w), <<>>) IN
  [segs |-> rel.u.segs, query |-> rel.u.params, xfers |-> rel.xs]

Paths(prog) ==
  LET t == Tables(prog)
      stmts == prog.mods[prog.main]
      rs == SelectSeq([i \in 1..Len(stmts) |-> i], LAMBDA i : stmts[i].k = "res")
  IN [j \in 1..Len(rs) |-> PathItem(D(prog, t, prog.main, <<rs[j], 1>>, <<>>, 0, 0, <<>>))]

\* the explicit components: every @declaration of a module ("get,put" method lists are split by the driver)
RefDecls(prog) == {x \in [m : DOMAIN prog.mods, i : 1..12] :
                     x.i <= Len(prog.mods[x.m]) /\ prog.mods[x.m][x.i].k = "decl" /\ prog.mods[x.m][x.i].q = "@"}
Component(prog, x) == [name |-> prog.mods[x.m][x.i].s, m |-> x.m,
                       schema |-> AsSchema(D(prog, Tables(prog), x.m, <<x.i, 1>>, <<>>, 0, 0, Own(prog.mods[x.m][x.i])))]
=============================================================================
