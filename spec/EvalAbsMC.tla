------------------------------ MODULE EvalAbsMC ------------------------------
(***************************************************************************)
(* Type soundness of the pipeline over the PosShape family: for every      *)
(* member the predicted outcome (rejected / ok / located error / crash at  *)
(* a cast / divergence) is printed for the replay on the real code;        *)
(* Sound is the property "accepted => no crash, no divergence".            *)
(***************************************************************************)
EXTENDS EvalAbs, Families, Json, IOUtils

CONSTANTS Positions, Shapes, Indirections

VARIABLES pn, sn, ind
vars == <<pn, sn, ind>>
Init == \/ pn \in Positions /\ sn \in Shapes /\ ind \in Indirections /\ ValidMember(pn, ind)
        \/ pn = "arity" /\ sn \in ArityNames /\ ind = "direct"            \* the Arity family rides along
        \/ pn = "recpair" /\ ind = "direct"                                 \* and the RecPair family
           /\ sn \in RecPairHosts \X RecPairBinders \X RecPairKinds \X RecPairBinders \X RecPairKinds
Next == UNCHANGED vars

PrintCase ==
  LET prog == Member(pn, sn, ind)
      o == Outcome(prog)
  IN PrintT(<<"CASE", ToJson([pos |-> pn, shape |-> sn, ind |-> ind, prog |-> prog,
                              outcome |-> o.k, site |-> o.op, variant |-> o.fn])>>)

\* oracle mode: programs supplied by the driver
FilePrograms == ndJsonDeserialize(IOEnv.PROGRAMS)
FileInit == pn = "file" /\ sn = "" /\ ind \in {ToString(i) : i \in 1..Len(FilePrograms)}
FileIndex == CHOOSE i \in 1..Len(FilePrograms) : ToString(i) = ind
PrintFileCase ==
  LET prog == FilePrograms[FileIndex]
      o == Outcome(prog)
  IN PrintT(<<"CASE", ToJson([idx |-> FileIndex, outcome |-> o.k, site |-> o.op, variant |-> o.fn])>>)

SoundHere == Sound(Member(pn, sn, ind))

\* abstraction is free at the level of the model: naming the value with let, passing it through an
\* identity function, or moving the let / the function to an imported module does not change the outcome
FreeIndirections == {"direct", "let", "idfn", "implet", "impfn"}
AbstractionFree ==
  (ind = "direct" /\ pn \in AllPositions) =>
    \A i2 \in FreeIndirections : Outcome(ProgOf(pn, sn, i2)).k = Outcome(ProgOf(pn, sn, "direct")).k
=============================================================================
