-------------------------------- MODULE Merge --------------------------------
(***************************************************************************)
(* oal-openapi/src/lib.rs : Builder::into_openapi with a base description. *)
(*                                                                         *)
(*   ComputeParts  all_paths() and all_components() from the program       *)
(*   PickBase      the supplied base, or the default base                  *)
(*   SetPaths      definition.paths = paths                                *)
(*   SetSchemas    definition.components.get_or_insert(default).schemas =  *)
(*                 components.schemas                                      *)
(* An OpenAPI description is abstracted to a record of fields, each        *)
(* "absent" or one of a few abstract values; `components` is NONE or a     *)
(* record of the ten component kinds.                                      *)
(***************************************************************************)
EXTENDS Naturals, Sequences, FiniteSets, TLC, Json

TopFields  == {"openapi", "info", "servers", "security", "tags", "externalDocs", "extensions"}
CONSTANT CompFields         \* non-schema component kinds considered by the configuration
AllCompFields == {"responses", "parameters", "examples", "requestBodies", "headers",
                  "securitySchemes", "links", "callbacks", "extensions"}
ASSUME CompFields \subseteq AllCompFields

TopValues(f) == CASE f \in {"info", "openapi"} -> {"v1", "v2"}          \* required by OpenAPI (openapi: the version string the base declares)
                  [] f = "servers" -> {"absent", "v1", "v2"}
                  [] OTHER -> {"absent", "v1"}

AllComp == CompFields \cup {"schemas"}

\* components: "present" says whether the base has a components object at all
CompRecords == {c \in [AllComp \cup {"present"} -> {"absent", "v1", "yes", "no"}] :
                  /\ c["present"] \in {"yes", "no"}
                  /\ \A f \in AllComp : c[f] \in {"absent", "v1"}
                  /\ c["present"] = "no" => \A f \in AllComp : c[f] = "absent"}

TopRecords == {t \in [TopFields \cup {"paths"} -> {"absent", "v1", "v2"}] :
                 /\ \A f \in TopFields : t[f] \in TopValues(f)
                 /\ t["paths"] \in {"absent", "v1"}}

Bases == [top : TopRecords, comp : CompRecords]

\* programs: what they contribute (paths, schemas), "absent" = empty
Programs == {[name |-> "empty",   paths |-> "absent", schemas |-> "absent"],
             [name |-> "paths",   paths |-> "prog",   schemas |-> "absent"],
             [name |-> "schemas", paths |-> "prog",   schemas |-> "prog"],
             \* operations that carry tags, summaries, operationIds and descriptions of their own: nothing of that may
             \* reach the parts of the document that belong to the base
             [name |-> "tagged",  paths |-> "prog",   schemas |-> "prog"]}

NoComponents == [f \in AllComp \cup {"present"} |-> IF f = "present" THEN "no" ELSE "absent"]

DefaultBase == [top |-> [f \in TopFields \cup {"paths"} |->
                           CASE f \in {"info", "servers", "openapi"} -> "default" [] OTHER -> "absent"],
                comp |-> NoComponents]

VARIABLES base, useBase, prog, pc, parts, def
vars == <<base, useBase, prog, pc, parts, def>>

Init ==
  /\ useBase \in BOOLEAN
  /\ IF useBase THEN base \in Bases ELSE base = DefaultBase
  /\ prog \in Programs
  /\ pc = "parts" /\ parts = [paths |-> "absent", schemas |-> "absent"] /\ def = DefaultBase

ComputeParts ==
  /\ pc = "parts"
  /\ parts' = [paths |-> prog.paths, schemas |-> prog.schemas]
  /\ pc' = "pick"
  /\ UNCHANGED <<base, useBase, prog, def>>

PickBase ==
  /\ pc = "pick"
  /\ def' = IF useBase THEN base ELSE DefaultBase
  /\ pc' = "paths"
  /\ UNCHANGED <<base, useBase, prog, parts>>

SetPaths ==
  /\ pc = "paths"
  /\ def' = [def EXCEPT !.top["paths"] = parts.paths]
  /\ pc' = "schemas"
  /\ UNCHANGED <<base, useBase, prog, parts>>

SetSchemas ==
  /\ pc = "schemas"
  /\ def' = [def EXCEPT !.comp["present"] = "yes", !.comp["schemas"] = parts.schemas]   \* get_or_insert(default).schemas = ..
  /\ pc' = "done"
  /\ UNCHANGED <<base, useBase, prog, parts>>

Done == pc = "done" /\ UNCHANGED vars

Next == ComputeParts \/ PickBase \/ SetPaths \/ SetSchemas \/ Done
Spec == Init /\ [][Next]_vars /\ WF_vars(Next)

\* ---- properties -----------------------------------------------------------------
\* everything but paths and schema components is the base's (an absent components object
\* and an empty one are the same description)
Frame == pc = "done" =>
  /\ \A f \in TopFields : def.top[f] = base.top[f]
  /\ \A f \in CompFields : def.comp[f] = base.comp[f]

\* paths and schema components come entirely from the program
FromProgram == pc = "done" =>
  /\ def.top["paths"] = prog.paths
  /\ def.comp["schemas"] = prog.schemas

\* at no point is a base field other than paths/components.schemas written
FrameAlways == pc \in {"paths", "schemas", "done"} =>
  /\ \A f \in TopFields : def.top[f] = base.top[f]
  /\ \A f \in CompFields : def.comp[f] = base.comp[f]

Terminates == <>(pc = "done")

CaseOf == [base |-> base, useBase |-> useBase, prog |-> prog.name, out |-> def]
PrintCase == (pc = "done" /\ useBase) => PrintT(<<"CASE", ToJson(CaseOf)>>)
=============================================================================
