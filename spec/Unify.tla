-------------------------------- MODULE Unify --------------------------------
(***************************************************************************)
(* The union-find unifier of oal-compiler/src/inference/{unify,union}.rs.  *)
(*                                                                         *)
(* One action per critical section of the Rust code:                       *)
(*   NextEquation  - InferenceSet::unify picks the next equation           *)
(*   Step          - one activation of unify(): reduce both sides, then    *)
(*                   equal / var-left / var-right / func-func / prop-prop  *)
(*                   / mismatch; the recursion is the explicit stack `work`*)
(*                   (range first, then the bindings left to right)        *)
(*   Finish        - the caller (substitute) reduces every tag             *)
(* UnionFind::union is the operator Union: insert both, reduce_mut with    *)
(* path flattening, parents[vrep] := wrep ("right representative wins").   *)
(*                                                                         *)
(* The reference is an independent Robinson unifier on a triangular        *)
(* substitution (RefU).                                                    *)
(***************************************************************************)
EXTENDS Naturals, Sequences, FiniteSets, TLC, Json

CONSTANTS Universe,                    \* set of tags equations are drawn from
          MaxEqs,                      \* maximal number of equations of a system
          NVars,                       \* variables are v1..vNVars
          OccursDescendsIntoProperty,  \* TRUE: occurs() looks inside Property tags
          Fuel                         \* recursion budget standing for the Rust stack

C(n)     == [k |-> "c", n |-> n]
V(i)     == [k |-> "v", i |-> i]
P(t)     == [k |-> "p", t |-> t]
F(b, r)  == [k |-> "f", b |-> b, r |-> r]
DIV      == [k |-> "div"]

Vars == 1..NVars

\* ---- universes used by the configurations --------------------------------
AtomsQ   == {C("Object"), C("Text"), V(1), V(2)}
UniQuick == AtomsQ \cup {P(a) : a \in AtomsQ}
                   \cup {F(<<a>>, r) : a \in {V(1), V(2), C("Object")}, r \in {V(1), V(2), C("Text")}}
                   \cup {F(<<V(1), V(2)>>, C("Object")), F(<<V(2), V(1)>>, V(2)), P(P(V(1))), F(<<P(V(2))>>, V(1)),
                         F(<<F(<<V(1)>>, V(2))>>, V(1))}

AtomsT   == {C("Object"), C("Uri"), C("Text"), V(1), V(2), V(3)}
UniOne   == AtomsT \cup {P(a) : a \in AtomsT} \cup {F(<<a>>, r) : a, r \in AtomsT}
                   \cup {F(<<a, b>>, r) : a, b, r \in AtomsT}
                   \cup {P(P(a)) : a \in AtomsT} \cup {P(F(<<a>>, r)) : a, r \in {V(1), V(2), C("Object")}}
UniThree == {C("Object"), C("Text"), V(1), V(2), V(3), P(V(1)), P(V(2)),
             F(<<V(1)>>, V(2)), F(<<V(2)>>, V(3)), F(<<P(V(3))>>, V(1))}

\* ---- helpers ---------------------------------------------------------------
IndexOf(s, x) == IF \E i \in 1..Len(s) : s[i] = x THEN CHOOSE i \in 1..Len(s) : s[i] = x ELSE 0

RECURSIVE HasDiv(_)
HasDiv(t) == CASE t.k = "div" -> TRUE
               [] t.k = "p" -> HasDiv(t.t)
               [] t.k = "f" -> HasDiv(t.r) \/ \E j \in 1..Len(t.b) : HasDiv(t.b[j])
               [] OTHER -> FALSE

RECURSIVE VarsOf(_)
VarsOf(t) == CASE t.k = "v" -> {t.i}
               [] t.k = "p" -> VarsOf(t.t)
               [] t.k = "f" -> VarsOf(t.r) \cup UNION {VarsOf(t.b[j]) : j \in 1..Len(t.b)}
               [] OTHER -> {}

\* ---- the union-find structure (union.rs) ------------------------------------
RECURSIVE RootOf(_, _)
RootOf(par, v) == IF par[v] = v THEN v ELSE RootOf(par, par[v])

\* union::reduce with `find`: a variable is replaced by the reduced representative of its class
RECURSIVE Red(_, _, _, _)
Red(tg, par, t, n) ==
  IF n = 0 THEN DIV
  ELSE CASE t.k = "v" -> LET i == IndexOf(tg, t) IN
                         IF i = 0 THEN t
                         ELSE LET r == RootOf(par, i) IN
                              IF r = i THEN t ELSE Red(tg, par, tg[r], n - 1)
         [] t.k = "f" -> F([j \in 1..Len(t.b) |-> Red(tg, par, t.b[j], n - 1)], Red(tg, par, t.r, n - 1))
         [] t.k = "p" -> P(Red(tg, par, t.t, n - 1))
         [] OTHER -> t

Insert(tg, par, t) == IF IndexOf(tg, t) = 0 THEN <<Append(tg, t), Append(par, Len(par) + 1)>> ELSE <<tg, par>>

\* UnionFind::union(left, right)
Union(tg, par, l, r) ==
  LET s1 == Insert(tg, par, l)
      s2 == Insert(s1[1], s1[2], r)
      tg2 == s2[1]
      v == IndexOf(tg2, l)
      w == IndexOf(tg2, r)
      vrep == RootOf(s2[2], v)
      p1 == [s2[2] EXCEPT ![v] = vrep]          \* reduce_mut flattens the path of v
      wrep == RootOf(p1, w)
      p2 == [p1 EXCEPT ![w] = wrep]
      p3 == [p2 EXCEPT ![vrep] = wrep]          \* the right representative takes over
  IN <<tg2, p3>>

\* unify.rs: occurs(a, b) on reduced tags
RECURSIVE Occurs(_, _)
Occurs(a, b) ==
  IF a = b THEN TRUE
  ELSE CASE b.k = "f" -> Occurs(a, b.r) \/ \E j \in 1..Len(b.b) : Occurs(a, b.b[j])
         [] b.k = "p" -> OccursDescendsIntoProperty /\ Occurs(a, b.t)
         [] OTHER -> FALSE

\* ---- state machine -----------------------------------------------------------
VARIABLES eqs, pos, work, tags, parent, status
vars == <<eqs, pos, work, tags, parent, status>>

Eq == Universe \X Universe
Systems == UNION {[1..n -> Eq] : n \in 1..MaxEqs}

Init ==
  /\ \E n \in 1..MaxEqs : eqs \in [1..n -> Eq]
  /\ pos = 1 /\ work = <<>> /\ tags = <<>> /\ parent = <<>> /\ status = "run"

NextEquation ==
  /\ status = "run" /\ work = <<>> /\ pos <= Len(eqs)
  /\ work' = <<eqs[pos]>>
  /\ pos' = pos + 1
  /\ UNCHANGED <<eqs, tags, parent, status>>

Step ==
  /\ status = "run" /\ work # <<>>
  /\ LET l == Red(tags, parent, Head(work)[1], Fuel)
         r == Red(tags, parent, Head(work)[2], Fuel)
         rest == Tail(work)
     IN IF HasDiv(l) \/ HasDiv(r)
        THEN status' = "diverge" /\ UNCHANGED <<work, tags, parent>>
        ELSE IF l = r
        THEN work' = rest /\ UNCHANGED <<tags, parent, status>>
        ELSE IF l.k = "v"
        THEN IF Occurs(l, r)
             THEN status' = "err_recursive" /\ UNCHANGED <<work, tags, parent>>
             ELSE LET u == Union(tags, parent, l, r) IN
                  tags' = u[1] /\ parent' = u[2] /\ work' = rest /\ UNCHANGED status
        ELSE IF r.k = "v"
        THEN IF Occurs(r, l)
             THEN status' = "err_recursive" /\ UNCHANGED <<work, tags, parent>>
             ELSE LET u == Union(tags, parent, r, l) IN
                  tags' = u[1] /\ parent' = u[2] /\ work' = rest /\ UNCHANGED status
        ELSE IF l.k = "f" /\ r.k = "f"
        THEN IF Len(l.b) # Len(r.b)
             THEN status' = "err_arity" /\ UNCHANGED <<work, tags, parent>>
             ELSE /\ work' = <<<<l.r, r.r>>>> \o [j \in 1..Len(l.b) |-> <<l.b[j], r.b[j]>>] \o rest
                  /\ UNCHANGED <<tags, parent, status>>
        ELSE IF l.k = "p" /\ r.k = "p"
        THEN work' = <<<<l.t, r.t>>>> \o rest /\ UNCHANGED <<tags, parent, status>>
        ELSE status' = "err_mismatch" /\ UNCHANGED <<work, tags, parent>>
  /\ UNCHANGED <<eqs, pos>>

\* the caller reduces every tag of the module (inference::substitute)
Finish ==
  /\ status = "run" /\ work = <<>> /\ pos > Len(eqs)
  /\ status' = IF \E v \in Vars : HasDiv(Red(tags, parent, V(v), Fuel)) THEN "diverge" ELSE "ok"
  /\ UNCHANGED <<eqs, pos, work, tags, parent>>

Done == status # "run" /\ UNCHANGED vars

Next == NextEquation \/ Step \/ Finish \/ Done
Spec == Init /\ [][Next]_vars /\ WF_vars(NextEquation \/ Step \/ Finish)

\* ---- reference: Robinson unification on a triangular substitution ------------
None == [k |-> "none"]
FAIL == [k |-> "fail"]
EmptySubst == [v \in Vars |-> None]

RECURSIVE Walk(_, _)
Walk(t, s) == IF t.k = "v" /\ s[t.i] # None THEN Walk(s[t.i], s) ELSE t

RECURSIVE OccursIn(_, _, _)
OccursIn(v, t, s) ==
  LET w == Walk(t, s) IN
  CASE w.k = "v" -> w.i = v
    [] w.k = "p" -> OccursIn(v, w.t, s)
    [] w.k = "f" -> OccursIn(v, w.r, s) \/ \E j \in 1..Len(w.b) : OccursIn(v, w.b[j], s)
    [] OTHER -> FALSE

RECURSIVE RefU(_, _)
RefU(todo, s) ==
  IF todo = <<>> THEN s
  ELSE LET a == Walk(Head(todo)[1], s)
           b == Walk(Head(todo)[2], s)
           rest == Tail(todo)
       IN IF a = b THEN RefU(rest, s)
          ELSE IF a.k = "v" THEN IF OccursIn(a.i, b, s) THEN FAIL ELSE RefU(rest, [s EXCEPT ![a.i] = b])
          ELSE IF b.k = "v" THEN IF OccursIn(b.i, a, s) THEN FAIL ELSE RefU(rest, [s EXCEPT ![b.i] = a])
          ELSE IF a.k = "p" /\ b.k = "p" THEN RefU(<<<<a.t, b.t>>>> \o rest, s)
          ELSE IF a.k = "f" /\ b.k = "f" /\ Len(a.b) = Len(b.b)
               THEN RefU(<<<<a.r, b.r>>>> \o [j \in 1..Len(a.b) |-> <<a.b[j], b.b[j]>>] \o rest, s)
          ELSE FAIL

RECURSIVE Resolve(_, _)
Resolve(t, s) ==
  LET w == Walk(t, s) IN
  CASE w.k = "p" -> P(Resolve(w.t, s))
    [] w.k = "f" -> F([j \in 1..Len(w.b) |-> Resolve(w.b[j], s)], Resolve(w.r, s))
    [] OTHER -> w

RefSolvable(sys) == RefU(sys, EmptySubst) # FAIL

\* ---- properties -----------------------------------------------------------------
UFWellFormed ==
  /\ Len(tags) = Len(parent)
  /\ \A i \in 1..Len(tags) : parent[i] \in 1..Len(tags)
  /\ \A i, j \in 1..Len(tags) : i # j => tags[i] # tags[j]
  /\ \A i \in 1..Len(tags) : tags[i].k # "v" => parent[i] = i      \* only variables are ever re-parented

\* no variable reaches itself through the structure of its class representative
ClassTag(v) == LET i == IndexOf(tags, V(v)) IN IF i = 0 THEN V(v) ELSE tags[RootOf(parent, i)]
DependsOn(v) == LET t == ClassTag(v) IN IF t.k = "v" THEN {} ELSE VarsOf(t)
RECURSIVE Reach(_, _)
Reach(S, n) == IF n = 0 THEN S ELSE Reach(S \cup UNION {DependsOn(v) : v \in S}, n - 1)
Acyclic == \A v \in Vars : v \notin Reach(DependsOn(v), NVars)

NoDivergence == status # "diverge"

Terminates == <>(status # "run")

Terminal == status # "run"

VerdictIsSolvability == Terminal /\ status # "diverge" => ((status = "ok") <=> RefSolvable(eqs))

Reduced(v) == Red(tags, parent, V(v), Fuel)

IsUnifier == status = "ok" =>
  \A i \in 1..Len(eqs) : Red(tags, parent, eqs[i][1], Fuel) = Red(tags, parent, eqs[i][2], Fuel)

\* most general: same equalities between variables and same binding structure as the reference
RECURSIVE Shape(_)
Shape(t) == CASE t.k = "v" -> [k |-> "v"]
              [] t.k = "p" -> P(Shape(t.t))
              [] t.k = "f" -> F([j \in 1..Len(t.b) |-> Shape(t.b[j])], Shape(t.r))
              [] OTHER -> t
MostGeneral == status = "ok" =>
  LET s == RefU(eqs, EmptySubst) IN
  /\ \A v \in Vars : Shape(Reduced(v)) = Shape(Resolve(V(v), s))
  /\ \A v, w \in Vars : (Reduced(v) = Reduced(w)) <=> (Resolve(V(v), s) = Resolve(V(w), s))

\* ---- case generation for the binding -------------------------------------------
CaseOf == [eqs |-> eqs, status |-> status,
           reduced |-> IF status = "ok" THEN [v \in Vars |-> Reduced(v)] ELSE <<>>,
           ref |-> RefSolvable(eqs)]
PrintCase == Terminal => PrintT(<<"CASE", ToJson(CaseOf)>>)
=============================================================================
