------------------------------ MODULE ResolveMC ------------------------------
(***************************************************************************)
(* The `Scopes` family: one contested name that may be bound, at the same  *)
(* time, by a rec binder, a function parameter, a declaration (before or   *)
(* after its uses), an unqualified import, a qualified import and the      *)
(* built-in `concat`; every subset of binders x every use site.            *)
(***************************************************************************)
EXTENDS Resolve, Json, IOUtils

Marker(x) == Obj(<<Prop(x, Prim("num"))>>)
\* the contested name may be a reference name (@n): its declarations are reference declarations
DeclOf(n, rhs) == IF n = "@n" THEN LetRef(n, rhs) ELSE Let(n, rhs)

\* g imports h under the same qualifier name the main module uses, and has a qualified use of its own
ModG(n) == <<UseAs("h", "q"), DeclOf(n, Marker("u")), Let("t", Marker("t")), Let("w", QVar("q", n))>>
ModH(n) == <<DeclOf(n, Marker("q"))>>

\* the statements that contain the use of the contested name n
UseSite(site, n, P, R) ==
  CASE site = "top"   -> <<Let("u", Var(n))>>
    [] site = "fn"    -> <<Decl("f", <<P>>, Var(n)), Let("u", App(Var("f"), <<Marker("p")>>))>>
    [] site = "rec"   -> <<Let("u", Rec(R, Obj(<<Prop("k", Arr(Var(n)))>>)))>>
    [] site = "recfn" -> <<Decl("f", <<P>>, Rec(R, Obj(<<Prop("k", Arr(Var(n))), Prop("v", Var(P))>>))),
                           Let("u", App(Var("f"), <<Marker("p")>>))>>
    [] site = "qual"  -> <<Let("u", QVar("q", n))>>
    \* a use AFTER a rec expression has ended: the rec binder (possibly of the same name) is out of scope again
    [] site = "afterrec" -> <<Let("u", Obj(<<Prop("t", Rec(R, Obj(<<Prop("k", Arr(Var(R)))>>))), Prop("v", Var(n))>>))>>
    \* a rec expression directly in a res statement (no enclosing declaration)
    [] site = "recres" -> <<Let("u", Marker("t")),
                            Res(Rel(Uri(<<Seg("r")>>), <<Xfer("get", Cnt(<<>>, <<Rec(R, Obj(<<Prop("k", Arr(Var(n))), Prop("s", Arr(Var(R)))>>))>>))>>))>>
    [] site = "afterrecfn" -> <<Decl("f", <<P>>, Obj(<<Prop("t", Rec(R, Obj(<<Prop("k", Arr(Var(R)))>>))), Prop("v", Var(n))>>)),
                                Let("u", App(Var("f"), <<Marker("p")>>))>>

\* UL: the use statements come first, or last (after the declarations: the order of statements is immaterial)
MainOfL(n, U, Q, D, P, R, site, UL) ==
  LET uses == (IF U THEN <<Use("g")>> ELSE <<>>) \o (IF Q THEN <<UseAs("h", "q")>> ELSE <<>>)
      rest == (IF D = 1 THEN <<DeclOf(n, Marker("d"))>> ELSE <<>>)
              \o UseSite(site, n, P, R)
              \o (IF D = 2 THEN <<DeclOf(n, Marker("d"))>> ELSE <<>>)
              \o <<Res(Rel(Uri(<<Seg("")>>), <<Xfer("get", Cnt(<<>>, <<Var("u")>>))>>))>>
  IN IF UL = "last" THEN rest \o uses ELSE uses \o rest

MainOf(n, U, Q, D, P, R, site) ==
  (IF U THEN <<Use("g")>> ELSE <<>>)
  \o (IF Q THEN <<UseAs("h", "q")>> ELSE <<>>)
  \o (IF D = 1 THEN <<DeclOf(n, Marker("d"))>> ELSE <<>>)
  \o UseSite(site, n, P, R)
  \o (IF D = 2 THEN <<DeclOf(n, Marker("d"))>> ELSE <<>>)
  \o <<Res(Rel(Uri(<<Seg("")>>), <<Xfer("get", Cnt(<<>>, <<Var("u")>>))>>))>>

ProgOf(n, U, Q, D, P, R, site) ==
  [main |-> "m1",
   mods |-> [m \in {"m1", "g", "h"} |->
              CASE m = "m1" -> MainOf(n, U, Q, D, P, R, site)
                [] m = "g" -> ModG(n)
                [] m = "h" -> ModH(n)]]

\* imports are not transitive: g2 imports k unqualified and uses k's declaration of the contested name itself, but does not
\* declare it - the main module, importing g2, must not see k's declaration (nor under its own qualifier)
ModG2(n) == <<UseAs("h", "q"), Use("k"), Let("t", Marker("t")), Let("w", QVar("q", n)), Let("v", Var(n))>>
ModK(n) == <<DeclOf(n, Marker("k"))>>
ProgOfT(n, U, Q, D, P, R, site) ==
  [main |-> "m1",
   mods |-> [m \in {"m1", "g", "h", "k"} |->
              CASE m = "m1" -> MainOf(n, U, Q, D, P, R, site)
                [] m = "g" -> ModG2(n)
                [] m = "h" -> ModH(n)
                [] m = "k" -> ModK(n)]]

Names == {"n", "concat"}
Sites == {"top", "fn", "rec", "recfn", "qual", "afterrec", "afterrecfn", "recres"}

ProgOfL(n, U, Q, D, P, R, site) ==
  [main |-> "m1",
   mods |-> [m \in {"m1", "g", "h"} |->
              CASE m = "m1" -> MainOfL(n, U, Q, D, P, R, site, "last")
                [] m = "g" -> ModG(n)
                [] m = "h" -> ModH(n)]]

ScopesFamily ==
  {ProgOf(n, U, Q, D, P, R, site) :
     n \in Names, U \in BOOLEAN, Q \in BOOLEAN, D \in 0..2, P \in {"n", "p"}, R \in {"n", "z"}, site \in Sites}
  \* the contested name spelled like the qualifier of the qualified import, and a reference name (@n)
  \cup {ProgOf(n, U, Q, D, P, R, site) :
     n \in {"q", "@n"}, U \in BOOLEAN, Q \in BOOLEAN, D \in 0..2, P \in {"n", "p"}, R \in {"n", "z"}, site \in {"top", "fn", "qual"}}
  \cup {ProgOfL("n", U, Q, D, P, R, site) :
     U \in BOOLEAN, Q \in BOOLEAN, D \in 0..2, P \in {"n", "p"}, R \in {"n", "z"}, site \in {"top", "fn", "qual", "afterrecfn"}}

  \cup {ProgOfT(n, TRUE, Q, D, P, R, site) :
     n \in {"n", "@n"}, Q \in BOOLEAN, D \in 0..2, P \in {"n", "p"}, R \in {"n", "z"}, site \in {"top", "fn", "qual"}}

ScopesSmall ==
  {ProgOf("n", U, Q, D, P, R, site) :
     U \in BOOLEAN, Q \in BOOLEAN, D \in 0..2, P \in {"n", "p"}, R \in {"n", "z"}, site \in {"top", "fn", "rec", "qual"}}

\* oracle mode: programs supplied by the driver (random composites)
FilePrograms == ndJsonDeserialize(IOEnv.PROGRAMS)
FileFamily == {FilePrograms[i] : i \in 1..Len(FilePrograms)}

\* one CASE line per (program, module): the reference answer
RECURSIVE TableSeq(_)
TableSeq(t) == IF t = {} THEN <<>> ELSE LET x == CHOOSE x \in t : TRUE IN <<x>> \o TableSeq(t \ {x})
\* modules loaded for the main program (import chains have length <= 2 in this family)
UsesOfMod(m) == {u.s : u \in {prog.mods[m][i] : i \in {j \in 1..Len(prog.mods[m]) : prog.mods[m][j].k = "use"}}}
LoadedMods == LET A == {prog.main} \cup UsesOfMod(prog.main) IN A \cup UNION {UsesOfMod(m) : m \in A}

\* find-references: the uses, in any loaded module, whose binder is the given one; and its inverse
RefsOf(b) == UNION {{[m |-> m2, use |-> r.use] : r \in {x \in RefTable(prog, m2) : x.b = b}} : m2 \in LoadedMods}
Inverse == \A m2 \in LoadedMods : \A r \in RefTable(prog, m2) :
             r.b.kind \notin {"none", "internal"} => [m |-> m2, use |-> r.use] \in RefsOf(r.b)

PrintCase ==
  (phase = "stdlib") =>
    LET r == RefResolve(prog, mod) IN
    PrintT(<<"CASE", ToJson([prog |-> prog, mod |-> mod, err |-> r.err, table |-> TableSeq(r.table)])>>)
=============================================================================
