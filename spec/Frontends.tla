------------------------------ MODULE Frontends ------------------------------
(***************************************************************************)
(* The three front ends on one set of sources:                             *)
(*   oal-cli   (oal-client/src/bin/oal-cli.rs run(): config -> load ->     *)
(*             eval -> base -> serialize -> write -> exit)                 *)
(*   oal_wasm::compile (the playground entry point)                        *)
(*   oal-lsp   (one load/evaluate cycle, diagnostics published)            *)
(* The class of the sources (ok, or the phase that rejects them) is chosen *)
(* in Init and is *hidden* from the trace: trace validation has to find a  *)
(* class that explains all three observations.                             *)
(***************************************************************************)
EXTENDS Naturals, Integers, Sequences, FiniteSets, TLC

Classes == {"ok", "lexical", "syntax", "import", "scope", "type", "eval"}
LoadErrors == {"lexical", "syntax", "import", "scope", "type"}

CONSTANT OptionsWin                  \* TRUE in the code: a setting given as an option overrides the configuration file

\* where the settings come from: options only, the configuration file only, or both - then the file names a
\* decoy target (and a decoy main) that must not be used
CfgModes == {"options", "config", "both"}

VARIABLES cls,                       \* hidden class of the sources
          hasBase, viaConfig, targetExisted,      \* CLI configuration (viaConfig \in CfgModes)
          eff, decoy,                             \* which target the settings resolve to ("T" / "D"); state of the decoy file
          pc, target, exit, located,              \* CLI run
          wasm, lsp                               \* "none" | "ok" | "error";  "none" | "clean" | "diagnostics"
vars == <<cls, hasBase, viaConfig, targetExisted, eff, decoy, pc, target, exit, located, wasm, lsp>>

Init ==
  /\ cls \in Classes
  /\ hasBase \in BOOLEAN /\ viaConfig \in CfgModes /\ targetExisted \in BOOLEAN
  /\ pc = "config" /\ target = (IF targetExisted THEN "old" ELSE "none")
  /\ eff = "?" /\ decoy = (IF viaConfig = "both" /\ targetExisted THEN "old" ELSE "none")
  /\ exit = -1 /\ located = FALSE /\ wasm = "none" /\ lsp = "none"

\* Config::main/target/base: option first, then the file (config.rs `args.x.or(file.api.x)`)
Setting(opt, file) == IF OptionsWin THEN (IF opt # "none" THEN opt ELSE file) ELSE (IF file # "none" THEN file ELSE opt)
CliConfig ==
  /\ pc = "config" /\ pc' = "load"
  /\ eff' = Setting(IF viaConfig = "config" THEN "none" ELSE "T",
                    CASE viaConfig = "options" -> "none" [] viaConfig = "config" -> "T" [] OTHER -> "D")
  /\ UNCHANGED <<cls, hasBase, viaConfig, targetExisted, decoy, target, exit, located, wasm, lsp>>

\* Processor::load: lexical, syntax, import, scope and type errors are reported and end the run
CliLoad ==
  /\ pc = "load"
  /\ IF cls \in LoadErrors
     THEN located' = TRUE /\ exit' = 1 /\ pc' = "exited"
     ELSE pc' = "eval" /\ UNCHANGED <<located, exit>>
  /\ UNCHANGED <<cls, hasBase, viaConfig, targetExisted, eff, decoy, target, wasm, lsp>>

CliEval ==
  /\ pc = "eval"
  /\ IF cls = "eval"
     THEN located' = TRUE /\ exit' = 1 /\ pc' = "exited"
     ELSE pc' = "base" /\ UNCHANGED <<located, exit>>
  /\ UNCHANGED <<cls, hasBase, viaConfig, targetExisted, eff, decoy, target, wasm, lsp>>

CliBase ==
  /\ pc = "base" /\ pc' = "serialize"
  /\ UNCHANGED <<cls, hasBase, viaConfig, targetExisted, eff, decoy, target, exit, located, wasm, lsp>>

CliSerialize ==
  /\ pc = "serialize" /\ pc' = "write"
  /\ UNCHANGED <<cls, hasBase, viaConfig, targetExisted, eff, decoy, target, exit, located, wasm, lsp>>

CliWrite ==
  /\ pc = "write"
  /\ IF eff = "T" THEN target' = "new" /\ UNCHANGED decoy ELSE decoy' = "new" /\ UNCHANGED target
  /\ exit' = 0 /\ pc' = "exited"
  /\ UNCHANGED <<cls, hasBase, viaConfig, targetExisted, eff, located, wasm, lsp>>

Wasm ==
  /\ wasm = "none"
  /\ wasm' = (IF cls = "ok" THEN "ok" ELSE "error")
  /\ UNCHANGED <<cls, hasBase, viaConfig, targetExisted, eff, decoy, pc, target, exit, located, lsp>>

Lsp ==
  /\ lsp = "none"
  /\ lsp' = (IF cls = "ok" THEN "clean" ELSE "diagnostics")
  /\ UNCHANGED <<cls, hasBase, viaConfig, targetExisted, eff, decoy, pc, target, exit, located, wasm>>

Done == pc = "exited" /\ wasm # "none" /\ lsp # "none" /\ UNCHANGED vars

Cli == CliConfig \/ CliLoad \/ CliEval \/ CliBase \/ CliSerialize \/ CliWrite
Next == Cli \/ Wasm \/ Lsp \/ Done
Spec == Init /\ [][Next]_vars /\ WF_vars(Cli) /\ WF_vars(Wasm) /\ WF_vars(Lsp)

\* ---- properties ------------------------------------------------------------------------
InitialTarget == IF targetExisted THEN "old" ELSE "none"

\* the target is written as the very last step: until then it is untouched
WriteIsLast == pc # "exited" => target = InitialTarget

ExitIffWritten == pc = "exited" =>
  /\ (exit = 0) <=> (target = "new")
  /\ (exit = 0) <=> (cls = "ok")
  /\ exit \in {0, 1}

FailureIsLocatedAndHarmless == (pc = "exited" /\ cls # "ok") =>
  /\ target = InitialTarget
  /\ located

\* the file the configuration file names is never touched when an option names another target
DecoyUntouched == decoy = (IF viaConfig = "both" /\ targetExisted THEN "old" ELSE "none")

FrontEndsAgree ==
  /\ (pc = "exited" /\ wasm # "none") => ((exit = 0) <=> (wasm = "ok"))
  /\ (pc = "exited" /\ lsp # "none") => ((exit # 0) <=> (lsp = "diagnostics"))

ConfigIrrelevant == pc = "exited" => (exit = (IF cls = "ok" THEN 0 ELSE 1))     \* no dependence on hasBase/viaConfig/targetExisted

Terminates == <>(pc = "exited" /\ wasm # "none" /\ lsp # "none")
=============================================================================
