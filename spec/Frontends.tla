------------------------------ MODULE Frontends ------------------------------
(***************************************************************************)
(* The three front ends on one set of sources:                             *)
(*   oal-cli   (oal-client/src/bin/oal-cli.rs run(): config -> load ->     *)
(*             eval -> base -> serialize -> write -> exit)                 *)
(*   oal_wasm::compile (the playground entry point)                        *)
(*   oal-lsp   (one load/evaluate cycle, diagnostics published)            *)
(* The class of the sources (ok, or the phase that rejects them) is chosen *)
(* in Init and is *hidden* from the trace: trace validation has to find a  *)
(* class that explains all three observations.                             *)
(***************************************************************************)
EXTENDS Naturals, Integers, Sequences, FiniteSets, TLC

Classes == {"ok", "lexical", "syntax", "import", "scope", "type", "eval"}
LoadErrors == {"lexical", "syntax", "import", "scope", "type"}

VARIABLES cls,                       \* hidden class of the sources
          hasBase, viaConfig, targetExisted,      \* CLI configuration
          pc, target, exit, located,              \* CLI run
          wasm, lsp                               \* "none" | "ok" | "error";  "none" | "clean" | "diagnostics"
vars == <<cls, hasBase, viaConfig, targetExisted, pc, target, exit, located, wasm, lsp>>

Init ==
  /\ cls \in Classes
  /\ hasBase \in BOOLEAN /\ viaConfig \in BOOLEAN /\ targetExisted \in BOOLEAN
  /\ pc = "config" /\ target = (IF targetExisted THEN "old" ELSE "none")
  /\ exit = -1 /\ located = FALSE /\ wasm = "none" /\ lsp = "none"

CliConfig ==
  /\ pc = "config" /\ pc' = "load"
  /\ UNCHANGED <<cls, hasBase, viaConfig, targetExisted, target, exit, located, wasm, lsp>>

\* Processor::load: lexical, syntax, import, scope and type errors are reported and end the run
CliLoad ==
  /\ pc = "load"
  /\ IF cls \in LoadErrors
     THEN located' = TRUE /\ exit' = 1 /\ pc' = "exited"
     ELSE pc' = "eval" /\ UNCHANGED <<located, exit>>
  /\ UNCHANGED <<cls, hasBase, viaConfig, targetExisted, target, wasm, lsp>>

CliEval ==
  /\ pc = "eval"
  /\ IF cls = "eval"
     THEN located' = TRUE /\ exit' = 1 /\ pc' = "exited"
     ELSE pc' = "base" /\ UNCHANGED <<located, exit>>
  /\ UNCHANGED <<cls, hasBase, viaConfig, targetExisted, target, wasm, lsp>>

CliBase ==
  /\ pc = "base" /\ pc' = "serialize"
  /\ UNCHANGED <<cls, hasBase, viaConfig, targetExisted, target, exit, located, wasm, lsp>>

CliSerialize ==
  /\ pc = "serialize" /\ pc' = "write"
  /\ UNCHANGED <<cls, hasBase, viaConfig, targetExisted, target, exit, located, wasm, lsp>>

CliWrite ==
  /\ pc = "write"
  /\ target' = "new" /\ exit' = 0 /\ pc' = "exited"
  /\ UNCHANGED <<cls, hasBase, viaConfig, targetExisted, located, wasm, lsp>>

Wasm ==
  /\ wasm = "none"
  /\ wasm' = (IF cls = "ok" THEN "ok" ELSE "error")
  /\ UNCHANGED <<cls, hasBase, viaConfig, targetExisted, pc, target, exit, located, lsp>>

Lsp ==
  /\ lsp = "none"
  /\ lsp' = (IF cls = "ok" THEN "clean" ELSE "diagnostics")
  /\ UNCHANGED <<cls, hasBase, viaConfig, targetExisted, pc, target, exit, located, wasm>>

Done == pc = "exited" /\ wasm # "none" /\ lsp # "none" /\ UNCHANGED vars

Cli == CliConfig \/ CliLoad \/ CliEval \/ CliBase \/ CliSerialize \/ CliWrite
Next == Cli \/ Wasm \/ Lsp \/ Done
Spec == Init /\ [][Next]_vars /\ WF_vars(Cli) /\ WF_vars(Wasm) /\ WF_vars(Lsp)

\* ---- properties ------------------------------------------------------------------------
InitialTarget == IF targetExisted THEN "old" ELSE "none"

\* the target is written as the very last step: until then it is untouched
WriteIsLast == pc # "exited" => target = InitialTarget

ExitIffWritten == pc = "exited" =>
  /\ (exit = 0) <=> (target = "new")
  /\ (exit = 0) <=> (cls = "ok")
  /\ exit \in {0, 1}

FailureIsLocatedAndHarmless == (pc = "exited" /\ cls # "ok") =>
  /\ target = InitialTarget
  /\ located

FrontEndsAgree ==
  /\ (pc = "exited" /\ wasm # "none") => ((exit = 0) <=> (wasm = "ok"))
  /\ (pc = "exited" /\ lsp # "none") => ((exit # 0) <=> (lsp = "diagnostics"))

ConfigIrrelevant == pc = "exited" => (exit = (IF cls = "ok" THEN 0 ELSE 1))     \* no dependence on hasBase/viaConfig/targetExisted

Terminates == <>(pc = "exited" /\ wasm # "none" /\ lsp # "none")
=============================================================================
