--------------------------------- MODULE Emit ---------------------------------
(***************************************************************************)
(* Closure of the emitted document (oal-openapi/src/lib.rs) on abstract    *)
(* specifications:                                                         *)
(*  - references: a reference is either inlined at its uses and skipped at *)
(*    registration (implicit name and atomic schema: maybe_inline) or      *)
(*    emitted as $ref and registered as a component (reference_schema,     *)
(*    all_components);                                                     *)
(*  - paths: the key of a relation is its URI pattern, variables as        *)
(*    {name}; one required path parameter per variable (uri_params);       *)
(*  - operationId: the user's, or method + the lower-cased labels of the   *)
(*    segments ("root" for the empty segment) (xfer_id).                   *)
(* The abstract specification is chosen in Init: up to two relations over  *)
(* a small universe of segments, a set of methods each, and up to three    *)
(* references.                                                             *)
(***************************************************************************)
EXTENDS Naturals, Sequences, FiniteSets, TLC, Json

CONSTANTS MaxSegs       \* maximal number of segments of a URI

\* ---- URIs ---------------------------------------------------------------------------------
Lit(n) == [k |-> "lit", n |-> n]
Var(n) == [k |-> "var", n |-> n]
Segments == {Lit(""), Lit("a"), Lit("A"), Lit("b"), Lit("root"), Var("a"), Var("b")}
Uris == UNION {[1..n -> Segments] : n \in 1..MaxSegs}

Lower(n) == IF n = "A" THEN "a" ELSE n

\* the key in `paths`: literal text, or {name}
KeyPart(s) == IF s.k = "var" THEN <<"{", s.n, "}">> ELSE <<s.n>>
Pattern(u) == [i \in 1..Len(u) |-> KeyPart(u[i])]

\* the label of a segment in a synthesized operationId (uri_segment_label)
Label(s) == IF s.k = "lit" THEN (IF s.n = "" THEN "root" ELSE Lower(s.n)) ELSE Lower(s.n)
OpId(m, u) == <<m>> \o [i \in 1..Len(u) |-> Label(u[i])]

VarsOf(u) == {u[i].n : i \in {j \in 1..Len(u) : u[j].k = "var"}}
DistinctVars(u) == \A i, j \in 1..Len(u) : (i # j /\ u[i].k = "var" /\ u[j].k = "var") => u[i].n # u[j].n
PathParams(u) == [i \in 1..Cardinality({j \in 1..Len(u) : u[j].k = "var"}) |->
                    LET js == {j \in 1..Len(u) : u[j].k = "var"}
                        RECURSIVE Nth(_, _)
                        Nth(S, k) == LET mn == CHOOSE x \in S : \A y \in S : x <= y IN IF k = 1 THEN mn ELSE Nth(S \ {mn}, k - 1)
                    IN [name |-> u[Nth(js, i)].n, required |-> TRUE]]

\* ---- references -------------------------------------------------------------------------------
RefKinds == {"atomic", "compound", "ref"}         \* Num/Str/Bool/Int/Rel/Uri ; Object/Array/Op ; Ref(other)
Inlined(r) == ~r.explicit /\ r.kind = "atomic"    \* maybe_inline
\* what a use of reference r emits
UseOf(r) == IF Inlined(r) THEN "value" ELSE "$ref"
Registered(r) == ~Inlined(r)                      \* all_components

VARIABLES u1, u2, methods, refs
vars == <<u1, u2, methods, refs>>

Init ==
  /\ u1 \in Uris /\ u2 \in Uris
  /\ DistinctVars(u1) /\ DistinctVars(u2)               \* the property's domain
  /\ Pattern(u1) # Pattern(u2)                          \* two different resources
  /\ methods \in {{"get"}, {"get", "put"}}
  /\ refs \in SUBSET [explicit : BOOLEAN, kind : RefKinds]
Next == UNCHANGED vars

\* ---- properties -----------------------------------------------------------------------------------
RefsClosed == \A r \in refs : (UseOf(r) = "$ref") => Registered(r)
NoDanglingComponents == \A r \in refs : Registered(r) => UseOf(r) = "$ref"

PathParamsMatch ==
  \A u \in {u1, u2} : {PathParams(u)[i].name : i \in 1..Len(PathParams(u))} = VarsOf(u)
                      /\ \A i \in 1..Len(PathParams(u)) : PathParams(u)[i].required
                      /\ Len(PathParams(u)) = Cardinality(VarsOf(u))

OpIdsUnique == \A m \in methods : OpId(m, u1) # OpId(m, u2)

\* the pairs on which the synthesized operationIds collide, for the replay
Collision == \E m \in methods : OpId(m, u1) = OpId(m, u2)
PrintCase == (methods = {"get"} /\ refs = {}) =>
  PrintT(<<"CASE", ToJson([u1 |-> u1, u2 |-> u2, collide |-> Collision])>>)
=============================================================================
