----------------------------- MODULE OxlipGrammar -----------------------------
(***************************************************************************)
(* oal-syntax/src/parser.rs as data for the Peg interpreter: one entry per *)
(* parser function, alternatives in the order of the Rust code.            *)
(* Token kinds are the names of oal_syntax::lexer::TokenKind.              *)
(***************************************************************************)
EXTENDS Peg

IsLiteral   == {"LiteralHttpStatus", "LiteralNumber", "LiteralString"}
IsPrimitive == {"PrimitiveBool", "PrimitiveInt", "PrimitiveNum", "PrimitiveStr", "PrimitiveUri"}
IsContent   == {"ContentHeaders", "ContentMedia", "ContentStatus"}
IsMethod    == {"MethodGet", "MethodPut", "MethodPost", "MethodPatch", "MethodDelete", "MethodOptions", "MethodHead"}

T(kd) == Tok({kd})
Comma == T("ControlComma")
Identifier == Alt(<<T("IdentifierReference"), T("IdentifierValue")>>)
UriSegment == Alt(<<T("PathElementSegment"), Call("uri_var"), T("PathElementRoot")>>)

P(steps, fin) == [steps |-> steps, fin |-> fin]

ProdNames == {"program", "import", "qualifier", "line_annotations", "binding", "bindings", "recursion",
              "xfer_list", "relation", "property_list", "object", "uri_var", "uri_path", "uri_params",
              "uri_template", "array", "property", "content_meta", "content_meta_list", "content_body",
              "content", "subexpr", "term", "optional_kind", "required_kind", "variable", "application",
              "range_kind", "join_kind", "any_kind", "sum_kind", "xfer_domain", "xfer_params",
              "xfer_methods", "transfer", "declaration", "resource"}

Statement    == Alt(<<Call("import"), Call("declaration"), Call("resource")>>)
TermKind     == Memo("Term", Call("term"))
UnaryKind    == Alt(<<Call("optional_kind"), Call("required_kind"), TermKind>>)
ApplyKind    == Alt(<<Call("application"), UnaryKind>>)
UriKind      == Alt(<<T("PrimitiveUri"), Call("uri_template")>>)
XferKind     == Alt(<<Call("transfer"), Call("sum_kind")>>)
RelationKind == Alt(<<Call("relation"), XferKind>>)
Expression   == Memo("Expression", Alt(<<Call("recursion"), RelationKind>>))

Grammar == [p \in ProdNames |->
  CASE p = "program"  -> P(<<Rep(<<Statement>>)>>, Node("Program"))
    [] p = "import"   -> P(<<Req(T("KeywordUse")), Req(T("LiteralString")), OrEmpty(Call("qualifier"), "Qualifier"),
                             Req(T("ControlSemicolon"))>>, Compose("Import"))
    [] p = "qualifier" -> P(<<Req(T("KeywordAs")), Req(Identifier)>>, Compose("Qualifier"))
    [] p = "line_annotations" -> P(<<Rep(<<T("AnnotationLine")>>)>>, Compose("Annotations"))
    [] p = "binding"  -> P(<<Req(T("IdentifierValue"))>>, Compose("Binding"))
    [] p = "bindings" -> P(<<Rep(<<Call("binding")>>)>>, Compose("Bindings"))
    [] p = "recursion" -> P(<<Req(T("KeywordRec")), Req(Call("binding")), Req(Expression)>>, Compose("Recursion"))
    [] p = "xfer_list" -> P(<<Inter(Expression, Comma)>>, Compose("XferList"))
    [] p = "relation" -> P(<<Req(TermKind), Req(T("KeywordOn")), Req(Call("xfer_list"))>>, Compose("Relation"))
    [] p = "property_list" -> P(<<Rep(<<Expression, Comma>>)>>, Compose("PropertyList"))
    [] p = "object"   -> P(<<Req(T("ControlBraceLeft")), Req(Call("property_list")), Req(T("ControlBraceRight"))>>,
                           Compose("Object"))
    [] p = "uri_var"  -> P(<<Req(T("PathElementRoot")), Req(T("ControlBraceLeft")), Req(Expression),
                             Req(T("ControlBraceRight"))>>, Compose("UriVariable"))
    [] p = "uri_path" -> P(<<Req(UriSegment), Rep(<<UriSegment>>)>>, Compose("UriPath"))
    [] p = "uri_params" -> P(<<Req(T("OperatorQuestionMark")), Req(Call("object"))>>, Compose("UriParams"))
    [] p = "uri_template" -> P(<<Req(Call("uri_path")), Opt(Call("uri_params"))>>, Compose("UriTemplate"))
    [] p = "array"    -> P(<<Req(T("ControlBracketLeft")), Req(Expression), Req(T("ControlBracketRight"))>>,
                           Compose("Array"))
    [] p = "property" -> P(<<Req(T("Property")),
                             Opt(Alt(<<T("OperatorExclamationMark"), T("OperatorQuestionMark")>>)),
                             Req(Expression)>>, Compose("Property"))
    [] p = "content_meta" -> P(<<Req(Tok(IsContent)), Req(T("OperatorEqual")), Req(Expression)>>, Compose("ContentMeta"))
    [] p = "content_meta_list" -> P(<<Inter(Call("content_meta"), Comma)>>, Compose("ContentMetaList"))
    [] p = "content_body" -> P(<<Req(Expression)>>, Compose("ContentBody"))
    [] p = "content"  -> P(<<Req(T("ControlChevronLeft")),
                             First(<< <<Req(Call("content_meta_list")), Req(Comma), Req(Call("content_body"))>>,
                                      <<Req(Call("content_meta_list"))>>,
                                      <<Req(Call("content_body"))>> >>),
                             Req(T("ControlChevronRight"))>>, Compose("Content"))
    [] p = "subexpr"  -> P(<<Req(T("ControlParenLeft")), Req(Expression), Req(T("ControlParenRight"))>>,
                           Compose("SubExpression"))
    [] p = "term"     -> P(<<Req(Call("line_annotations")),
                             Req(Alt(<<Tok(IsLiteral), Tok(IsPrimitive), UriKind, Call("array"), Call("property"),
                                       Call("object"), Call("content"), Call("subexpr"), Call("variable")>>)),
                             Opt(T("AnnotationInline"))>>, Compose("Terminal"))
    [] p = "optional_kind" -> P(<<Req(TermKind), Req(T("OperatorQuestionMark"))>>, Compose("UnaryOp"))
    [] p = "required_kind" -> P(<<Req(TermKind), Req(T("OperatorExclamationMark"))>>, Compose("UnaryOp"))
    [] p = "variable" -> P(<<Req(Identifier), OptReq(T("ControlFullStop"), Identifier)>>, Compose("Variable"))
    [] p = "application" -> P(<<Req(Call("variable")), Req(UnaryKind), Rep(<<UnaryKind>>)>>, Compose("Application"))
    [] p = "range_kind" -> P(<<Inter(ApplyKind, T("OperatorDoubleColon"))>>, Variadic)
    [] p = "join_kind" -> P(<<Inter(Call("range_kind"), T("OperatorAmpersand"))>>, Variadic)
    [] p = "any_kind" -> P(<<Inter(Call("join_kind"), T("OperatorTilde"))>>, Variadic)
    [] p = "sum_kind" -> P(<<Inter(Call("any_kind"), T("OperatorVerticalBar"))>>, Variadic)
    [] p = "xfer_domain" -> P(<<Req(T("OperatorColon")), Req(TermKind)>>, Compose("XferDomain"))
    [] p = "xfer_params" -> P(<<Req(Call("object"))>>, Compose("XferParams"))
    [] p = "xfer_methods" -> P(<<Inter(Tok(IsMethod), Comma)>>, Compose("XferMethods"))
    [] p = "transfer" -> P(<<Req(Call("xfer_methods")), OrEmpty(Call("xfer_params"), "XferParams"),
                             OrEmpty(Call("xfer_domain"), "XferDomain"), Req(T("OperatorArrow")),
                             Req(Call("range_kind"))>>, Compose("Transfer"))
    [] p = "declaration" -> P(<<Req(Call("line_annotations")), Req(T("KeywordLet")), Req(Identifier), Req(Call("bindings")),
                                DeclCheck, Req(T("OperatorEqual")), Req(Expression), Req(T("ControlSemicolon"))>>,
                              Compose("Declaration"))
    [] p = "resource" -> P(<<Req(T("KeywordRes")), Req(Expression), Req(T("ControlSemicolon"))>>, Compose("Resource"))]
=============================================================================
