--------------------------------- MODULE Lex ---------------------------------
(***************************************************************************)
(* Reference lexer of Oxlip: oal-syntax/src/lexer.rs (a logos lexer) as a   *)
(* maximal-munch tokenizer over the token patterns written as data.        *)
(*  - a text is a sequence of one-character strings;                       *)
(*  - every token kind has a pattern (a literal or a small regular         *)
(*    expression over character classes);                                  *)
(*  - at a position the longest match of any pattern wins; of two matches  *)
(*    of the same length a literal (`#[token]`) wins over a regular        *)
(*    expression (`#[regex]`);                                             *)
(*  - when no pattern matches, a lexical error covers the characters the   *)
(*    automaton consumed before it got stuck (at least one), and lexing    *)
(*    resumes behind it.                                                   *)
(* Run(r, s, i) simulates a pattern from position i: the set of positions  *)
(* at which a match may end and the furthest position reached while some   *)
(* alternative was still alive.                                            *)
(***************************************************************************)
EXTENDS Naturals, Sequences, FiniteSets, TLC

Lower == {"a", "b", "c", "d", "e", "f", "g", "h", "i", "j", "k", "l", "m", "n", "o", "p", "q", "r", "s", "t", "u", "v", "w", "x", "y", "z"}
Upper == {"A", "B", "C", "D", "E", "F", "G", "H", "I", "J", "K", "L", "M", "N", "O", "P", "Q", "R", "S", "T", "U", "V", "W", "X", "Y", "Z"}
Digit == {"0", "1", "2", "3", "4", "5", "6", "7", "8", "9"}
Alnum == Lower \cup Upper \cup Digit
IdentC == Alnum \cup {"$", "_", "-"}
PathC  == Alnum \cup {"%", "~", "_", ".", "-"}
PropC  == Alnum \cup {"$", "@", "_", "-"}
Blank  == {" ", "\t", "\r", "\n"}
EOL    == {"\r", "\n"}

\* ---- patterns ---------------------------------------------------------------------------------
Cls(c)   == [t |-> "cls", c |-> c, neg |-> FALSE, a |-> <<>>]
NotC(c)  == [t |-> "cls", c |-> c, neg |-> TRUE, a |-> <<>>]           \* any character not in c
Cat(a)   == [t |-> "cat", c |-> {}, neg |-> FALSE, a |-> a]
Alt(a)   == [t |-> "alt", c |-> {}, neg |-> FALSE, a |-> a]
Star(r)  == [t |-> "star", c |-> {}, neg |-> FALSE, a |-> <<r>>]
Plus(r)  == Cat(<<r, Star(r)>>)
\* characters the automaton reads as one chunk: nothing counts as consumed unless the whole chunk matches
Atom(r)  == [t |-> "atom", c |-> {}, neg |-> FALSE, a |-> <<r>>]
Ch(x)    == Cls({x})
Lit(cs)  == Cat([j \in 1..Len(cs) |-> Ch(cs[j])])                        \* cs: sequence of characters

Max(S) == CHOOSE x \in S : \A y \in S : y <= x

RECURSIVE Run(_, _, _)
RECURSIVE CatRun(_, _, _, _, _)
RECURSIVE StarRun(_, _, _, _, _)
\* components a[k..] of a concatenation from the set of positions S; reach: furthest position so far
CatRun(a, k, s, S, reach) ==
  IF k > Len(a) THEN [ends |-> S, reach |-> reach]
  ELSE IF S = {} THEN [ends |-> {}, reach |-> reach]
  ELSE LET rs == {Run(a[k], s, p) : p \in S}
       IN CatRun(a, k + 1, s, UNION {r.ends : r \in rs}, Max({reach} \cup {r.reach : r \in rs}))
\* zero or more repetitions: done = positions already expanded, todo = positions to expand
StarRun(r, s, done, todo, reach) ==
  IF todo = {} THEN [ends |-> done, reach |-> reach]
  ELSE LET rs == {Run(r, s, p) : p \in todo}
           new == UNION {x.ends : x \in rs}
       IN StarRun(r, s, done \cup todo, new \ (done \cup todo), Max({reach} \cup {x.reach : x \in rs}))
Run(r, s, i) ==
  CASE r.t = "cls" -> IF i <= Len(s) /\ ((s[i] \in r.c) # r.neg) THEN [ends |-> {i + 1}, reach |-> i + 1] ELSE [ends |-> {}, reach |-> i]
    [] r.t = "cat" -> CatRun(r.a, 1, s, {i}, i)
    [] r.t = "alt" -> LET rs == {Run(r.a[k], s, i) : k \in 1..Len(r.a)} IN [ends |-> UNION {x.ends : x \in rs}, reach |-> Max({x.reach : x \in rs})]
    [] r.t = "star" -> StarRun(r.a[1], s, {}, {i}, i)
    [] r.t = "atom" -> LET x == Run(r.a[1], s, i) IN [ends |-> x.ends, reach |-> IF x.ends = {} THEN i ELSE Max(x.ends)]

\* ---- the token kinds, in the order of lexer.rs; lit = TRUE for #[token] -----------------------------
K(kind, lit, pat) == [kind |-> kind, lit |-> lit, pat |-> pat]
Word(kind, cs) == K(kind, TRUE, Lit(cs))
Patterns == <<
  K("Space", FALSE, Plus(Cls(Blank))),
  K("CommentLine", FALSE, Cat(<<Lit(<<"/", "/">>), Star(NotC(EOL)), Star(Cls(EOL))>>)),
  K("CommentBlock", FALSE, Cat(<<Lit(<<"/", "*">>), Star(Alt(<<NotC({"*"}), Atom(Cat(<<Ch("*"), NotC({"/"})>>))>>)), Atom(Lit(<<"*", "/">>))>>)),
  Word("PrimitiveNum", <<"n", "u", "m">>), Word("PrimitiveStr", <<"s", "t", "r">>), Word("PrimitiveUri", <<"u", "r", "i">>),
  Word("PrimitiveBool", <<"b", "o", "o", "l">>), Word("PrimitiveInt", <<"i", "n", "t">>),
  Word("PathElementRoot", <<"/">>),
  K("PathElementSegment", FALSE, Cat(<<Ch("/"), Plus(Cls(PathC))>>)),
  Word("MethodGet", <<"g", "e", "t">>), Word("MethodPut", <<"p", "u", "t">>), Word("MethodPost", <<"p", "o", "s", "t">>),
  Word("MethodPatch", <<"p", "a", "t", "c", "h">>), Word("MethodDelete", <<"d", "e", "l", "e", "t", "e">>),
  Word("MethodOptions", <<"o", "p", "t", "i", "o", "n", "s">>), Word("MethodHead", <<"h", "e", "a", "d">>),
  Word("ContentMedia", <<"m", "e", "d", "i", "a">>), Word("ContentHeaders", <<"h", "e", "a", "d", "e", "r", "s">>),
  Word("ContentStatus", <<"s", "t", "a", "t", "u", "s">>),
  Word("KeywordLet", <<"l", "e", "t">>), Word("KeywordRes", <<"r", "e", "s">>), Word("KeywordUse", <<"u", "s", "e">>),
  Word("KeywordAs", <<"a", "s">>), Word("KeywordOn", <<"o", "n">>), Word("KeywordRec", <<"r", "e", "c">>),
  K("IdentifierValue", FALSE, Cat(<<Cls(Lower \cup Upper \cup {"_"}), Star(Cls(IdentC))>>)),
  K("IdentifierReference", FALSE, Cat(<<Ch("@"), Plus(Cls(IdentC))>>)),
  K("LiteralNumber", FALSE, Plus(Cls(Digit))),
  K("LiteralString", FALSE, Cat(<<Ch("\""), Star(NotC({"\""})), Ch("\"")>>)),
  K("LiteralHttpStatus", FALSE, Cat(<<Cls({"1", "2", "3", "4", "5"}), Ch("X"), Ch("X")>>)),
  K("Property", FALSE, Cat(<<Ch("'"), Plus(Cls(PropC))>>)),
  Word("ControlBraceLeft", <<"{">>), Word("ControlBraceRight", <<"}">>), Word("ControlParenLeft", <<"(">>), Word("ControlParenRight", <<")">>),
  Word("ControlBracketLeft", <<"[">>), Word("ControlBracketRight", <<"]">>), Word("ControlChevronLeft", <<"<">>), Word("ControlChevronRight", <<">">>),
  Word("ControlSemicolon", <<";">>), Word("ControlFullStop", <<".">>), Word("ControlComma", <<",">>),
  Word("OperatorExclamationMark", <<"!">>), Word("OperatorQuestionMark", <<"?">>), Word("OperatorAmpersand", <<"&">>), Word("OperatorTilde", <<"~">>),
  Word("OperatorVerticalBar", <<"|">>), Word("OperatorEqual", <<"=">>), Word("OperatorColon", <<":">>), Word("OperatorDoubleColon", <<":", ":">>),
  Word("OperatorArrow", <<"-", ">">>),
  K("AnnotationLine", FALSE, Cat(<<Ch("#"), Star(NotC(EOL)), Star(Cls(EOL))>>)),
  K("AnnotationInline", FALSE, Cat(<<Ch("`"), Star(NotC({"`"})), Ch("`")>>)) >>

\* ---- one step: the token (or the error) at position i ------------------------------------------
\* [kind ("" = lexical error), from, to): positions are 1-based indices, `to` exclusive
Step(s, i) ==
  LET runs == [k \in 1..Len(Patterns) |-> Run(Patterns[k].pat, s, i)]
      matched == {k \in 1..Len(Patterns) : runs[k].ends # {}}
      len(k) == Max(runs[k].ends)
      reach == Max({runs[k].reach : k \in 1..Len(Patterns)})
      \* a deliberate deviation from maximal munch, as the generated automaton behaves: once a block comment is opened
      \* there is no way back to the `/` that was already a complete token - an unterminated `/*` is one lexical error
      opened == i + 1 <= Len(s) /\ s[i] = "/" /\ s[i + 1] = "*"
               /\ Run(Patterns[CHOOSE k \in 1..Len(Patterns) : Patterns[k].kind = "CommentBlock"].pat, s, i).ends = {}
  IN IF matched = {} \/ opened
     THEN [kind |-> "", from |-> i, to |-> IF reach > i THEN reach ELSE i + 1]
     ELSE LET best == Max({len(k) : k \in matched})
              cands == {k \in matched : len(k) = best}
              \* of two matches of the same length a literal wins; otherwise the earlier pattern
              pick == IF \E k \in cands : Patterns[k].lit THEN CHOOSE k \in cands : Patterns[k].lit /\ \A k2 \in cands : Patterns[k2].lit => k <= k2
                      ELSE CHOOSE k \in cands : \A k2 \in cands : k <= k2
          IN [kind |-> Patterns[pick].kind, from |-> i, to |-> best]

RECURSIVE LexFrom(_, _)
LexFrom(s, i) == IF i > Len(s) THEN <<>> ELSE LET st == Step(s, i) IN <<st>> \o LexFrom(s, st.to)
Lex(s) == LexFrom(s, 1)

\* ---- properties of the reference (checked by TLC on every text of the configured family) ----------
Tiles(s, ts) ==
  /\ (ts = <<>>) = (s = <<>>)
  /\ ts # <<>> => ts[1].from = 1 /\ ts[Len(ts)].to = Len(s) + 1
  /\ \A j \in 1..Len(ts) : ts[j].from < ts[j].to
  /\ \A j \in 1..(Len(ts) - 1) : ts[j].to = ts[j + 1].from
\* every token's slice is a word of its kind's pattern
Genuine(s, ts) ==
  \A j \in 1..Len(ts) : ts[j].kind # "" =>
    \E k \in 1..Len(Patterns) : Patterns[k].kind = ts[j].kind /\ ts[j].to \in Run(Patterns[k].pat, s, ts[j].from).ends
\* (an error at an unterminated block comment is the one place where a pattern - the root `/` - matches at an error)
UnterminatedComment(s, i) == i + 1 <= Len(s) /\ s[i] = "/" /\ s[i + 1] = "*"
\* maximal munch: no pattern matches a longer slice at the start of a token
Maximal(s, ts) ==
  \A j \in 1..Len(ts) : ts[j].kind # "" =>
    \A k \in 1..Len(Patterns) : \A e \in Run(Patterns[k].pat, s, ts[j].from).ends : e <= ts[j].to
\* an error never starts where some pattern matches
ErrorsJustified(s, ts) ==
  \A j \in 1..Len(ts) : ts[j].kind = "" =>
    \/ \A k \in 1..Len(Patterns) : Run(Patterns[k].pat, s, ts[j].from).ends = {}
    \/ UnterminatedComment(s, ts[j].from)
=============================================================================
