------------------------------- MODULE Loader -------------------------------
(***************************************************************************)
(* oal-compiler/src/module.rs : load()                                     *)
(*                                                                         *)
(* One action per critical section of the Rust function:                   *)
(*   LoadMain, ParseMain   loader.load(base), loader.parse(base)           *)
(*   Pop                   queue.pop() (LIFO)                              *)
(*   ScanImport            one `use`: join + loader.is_valid(target)       *)
(*   ScanDone                                                              *)
(*   Link / Load / Parse   second loop: known target -> edge only,         *)
(*                         new target -> load, parse, node, edge, push     *)
(*   LinkDone                                                              *)
(*   Toposort              petgraph::toposort: any topological order of    *)
(*                         the dependency graph, or the cycle error        *)
(*   CompileNext, Finish   loader.compile in that order                    *)
(* The import graph G (module -> sequence of targets, in `use` order) is   *)
(* chosen in Init; targets outside DOMAIN G are files that do not exist;   *)
(* modules in `broken` have a syntax error.                                *)
(***************************************************************************)
EXTENDS Naturals, Sequences, FiniteSets, TLC, Json

CONSTANTS Mods,          \* candidate module names (strings); Main is one of them
          Main,
          Missing,       \* names of files that do not exist
          MaxImports,    \* maximal number of `use` statements per module
          MaxBroken      \* maximal number of modules with a syntax error

VARIABLES G, broken,                          \* the input
          pc, deps, nodes, edges, queue, cur, imports, i, pending, order, ci,
          loaded, parsed, valids, compiled,   \* call logs
          result
vars == <<G, broken, pc, deps, nodes, edges, queue, cur, imports, i, pending, order, ci,
          loaded, parsed, valids, compiled, result>>

Targets == Mods \cup Missing
Lists == UNION {[1..n -> Targets] : n \in 0..MaxImports}
Range(s) == {s[j] : j \in 1..Len(s)}

\* ---- declarative view of the input ---------------------------------------------
Imp(g, m) == Range(g[m]) \cap DOMAIN g
RECURSIVE ReachFrom(_, _, _)
ReachFrom(g, S, n) == IF n = 0 THEN S ELSE ReachFrom(g, S \cup UNION {Imp(g, m) : m \in S}, n - 1)
Reach(g) == ReachFrom(g, {Main}, Cardinality(DOMAIN g))
Succs(g, m) == ReachFrom(g, Imp(g, m), Cardinality(DOMAIN g))      \* transitive imports of m
HasCycle(g) == \E m \in Reach(g) : m \in Succs(g, m)
MissingOf(g, m) == Range(g[m]) \ DOMAIN g
HasMissing(g) == \E m \in Reach(g) : MissingOf(g, m) # {}

\* ---- initial states: every import graph, unreachable modules canonically empty ----
Init ==
  /\ G \in [Mods -> Lists]
  /\ \A m \in Mods \ Reach(G) : G[m] = <<>>
  /\ broken \in {B \in SUBSET Reach(G) : Cardinality(B) <= MaxBroken}
  /\ pc = "load_main" /\ deps = {} /\ nodes = <<>> /\ edges = {} /\ queue = <<>> /\ cur = Main
  /\ imports = <<>> /\ i = 1 /\ pending = Main /\ order = <<>> /\ ci = 1
  /\ loaded = <<>> /\ parsed = <<>> /\ valids = <<>> /\ compiled = <<>>
  /\ result = [kind |-> "run"]

Input == <<G, broken>>

LoadMain ==
  /\ pc = "load_main"
  /\ loaded' = Append(loaded, Main)
  /\ pc' = "parse_main"
  /\ UNCHANGED <<Input, deps, nodes, edges, queue, cur, imports, i, pending, order, ci, parsed, valids, compiled, result>>

ParseMain ==
  /\ pc = "parse_main"
  /\ parsed' = Append(parsed, Main)
  /\ IF Main \in broken
     THEN result' = [kind |-> "syntax", target |-> Main] /\ pc' = "done" /\ UNCHANGED <<deps, nodes, queue>>
     ELSE deps' = {Main} /\ nodes' = <<Main>> /\ queue' = <<Main>> /\ pc' = "pop" /\ UNCHANGED result
  /\ UNCHANGED <<Input, edges, cur, imports, i, pending, order, ci, loaded, valids, compiled>>

Pop ==
  /\ pc = "pop" /\ queue # <<>>
  /\ cur' = queue[Len(queue)]
  /\ queue' = SubSeq(queue, 1, Len(queue) - 1)
  /\ imports' = <<>> /\ i' = 1 /\ pc' = "scan"
  /\ UNCHANGED <<Input, deps, nodes, edges, pending, order, ci, loaded, parsed, valids, compiled, result>>

ScanImport ==
  /\ pc = "scan" /\ i <= Len(G[cur])
  /\ LET t == G[cur][i] IN
     /\ valids' = Append(valids, t)
     /\ IF t \in DOMAIN G
        THEN imports' = Append(imports, t) /\ i' = i + 1 /\ UNCHANGED <<pc, result>>
        ELSE result' = [kind |-> "missing", target |-> t] /\ pc' = "done" /\ UNCHANGED <<imports, i>>
  /\ UNCHANGED <<Input, deps, nodes, edges, queue, cur, pending, order, ci, loaded, parsed, compiled>>

ScanDone ==
  /\ pc = "scan" /\ i > Len(G[cur])
  /\ pc' = "link" /\ i' = 1
  /\ UNCHANGED <<Input, deps, nodes, edges, queue, cur, imports, pending, order, ci, loaded, parsed, valids, compiled, result>>

\* the import is already known: only an edge import -> importer
Link ==
  /\ pc = "link" /\ i <= Len(imports) /\ imports[i] \in deps
  /\ edges' = edges \cup {<<imports[i], cur>>}
  /\ i' = i + 1
  /\ UNCHANGED <<Input, pc, deps, nodes, queue, cur, imports, pending, order, ci, loaded, parsed, valids, compiled, result>>

Load ==
  /\ pc = "link" /\ i <= Len(imports) /\ imports[i] \notin deps
  /\ loaded' = Append(loaded, imports[i])
  /\ pending' = imports[i]
  /\ pc' = "parse"
  /\ UNCHANGED <<Input, deps, nodes, edges, queue, cur, imports, i, order, ci, parsed, valids, compiled, result>>

Parse ==
  /\ pc = "parse"
  /\ parsed' = Append(parsed, pending)
  /\ IF pending \in broken
     THEN result' = [kind |-> "syntax", target |-> pending] /\ pc' = "done" /\ UNCHANGED <<deps, nodes, edges, queue, i>>
     ELSE /\ nodes' = Append(nodes, pending)
          /\ edges' = edges \cup {<<pending, cur>>}
          /\ deps' = deps \cup {pending}
          /\ queue' = Append(queue, pending)
          /\ i' = i + 1 /\ pc' = "link" /\ UNCHANGED result
  /\ UNCHANGED <<Input, cur, imports, pending, order, ci, loaded, valids, compiled>>

LinkDone ==
  /\ pc = "link" /\ i > Len(imports)
  /\ pc' = "pop"
  /\ UNCHANGED <<Input, deps, nodes, edges, queue, cur, imports, i, pending, order, ci, loaded, parsed, valids, compiled, result>>

\* the dependency graph built so far
RECURSIVE EReach(_, _)
EReach(S, n) == IF n = 0 THEN S ELSE EReach(S \cup {e[2] : e \in {d \in edges : d[1] \in S}}, n - 1)
GraphCyclic == \E m \in Range(nodes) : m \in EReach({e[2] : e \in {d \in edges : d[1] = m}}, Len(nodes))

IsTopo(o) ==
  /\ Len(o) = Len(nodes) /\ Range(o) = Range(nodes)
  /\ \A a, b \in 1..Len(o) : <<o[b], o[a]>> \in edges => b < a

Perms(S) == {f \in [1..Cardinality(S) -> S] : \A a, b \in 1..Cardinality(S) : a # b => f[a] # f[b]}

Toposort ==
  /\ pc = "pop" /\ queue = <<>>
  /\ IF GraphCyclic
     THEN result' = [kind |-> "cycle"] /\ pc' = "done" /\ UNCHANGED <<order, ci>>
     ELSE /\ order' \in {o \in Perms(Range(nodes)) : IsTopo(o)}     \* petgraph's choice is not part of the contract
          /\ ci' = 1 /\ pc' = "compile" /\ UNCHANGED result
  /\ UNCHANGED <<Input, deps, nodes, edges, queue, cur, imports, i, pending, loaded, parsed, valids, compiled>>

CompileNext ==
  /\ pc = "compile" /\ ci <= Len(order)
  /\ compiled' = Append(compiled, order[ci])
  /\ ci' = ci + 1
  /\ UNCHANGED <<Input, pc, deps, nodes, edges, queue, cur, imports, i, pending, order, loaded, parsed, valids, result>>

Finish ==
  /\ pc = "compile" /\ ci > Len(order)
  /\ result' = [kind |-> "ok"] /\ pc' = "done"
  /\ UNCHANGED <<Input, deps, nodes, edges, queue, cur, imports, i, pending, order, ci, loaded, parsed, valids, compiled>>

Done == pc = "done" /\ UNCHANGED vars

Steps == LoadMain \/ ParseMain \/ Pop \/ ScanImport \/ ScanDone \/ Link \/ Load \/ Parse \/ LinkDone
         \/ Toposort \/ CompileNext \/ Finish
Next == Steps \/ Done
Spec == Init /\ [][Next]_vars /\ WF_vars(Steps)

\* ---- properties ------------------------------------------------------------------
NoDup(s) == \A a, b \in 1..Len(s) : a # b => s[a] # s[b]
Before(s, x, y) == \E a, b \in 1..Len(s) : a < b /\ s[a] = x /\ s[b] = y

Terminates == <>(pc = "done")

\* in every state: nothing is loaded, parsed or compiled twice, nothing unreachable is touched
OnceSoFar ==
  /\ NoDup(loaded) /\ NoDup(parsed) /\ NoDup(compiled)
  /\ Range(loaded) \subseteq Reach(G) /\ Range(compiled) \subseteq Reach(G)
  /\ Range(parsed) \subseteq Range(loaded)

Final == pc = "done"

\* the verdict is a function of the *sets* of imports (hence independent of `use` order and spelling)
BrokenReached == broken # {}     \* broken is a subset of Reach(G)
Verdict ==
  Final =>
    /\ result.kind = "ok" <=> (~HasMissing(G) /\ ~HasCycle(G) /\ ~BrokenReached)
    /\ result.kind = "cycle" => (HasCycle(G) /\ ~HasMissing(G) /\ ~BrokenReached)
    /\ (HasCycle(G) /\ ~HasMissing(G) /\ ~BrokenReached) => result.kind = "cycle"
    /\ result.kind = "missing" => \E m \in Reach(G) : result.target \in MissingOf(G, m)
    /\ result.kind = "syntax" => result.target \in broken
    /\ (HasMissing(G) \/ BrokenReached) => result.kind \in {"missing", "syntax"}

ExactlyOnce ==
  (Final /\ result.kind = "ok") =>
    /\ Range(loaded) = Reach(G) /\ Range(parsed) = Reach(G) /\ Range(compiled) = Reach(G)
    /\ NoDup(loaded) /\ NoDup(parsed) /\ NoDup(compiled)

ImportsFirst ==
  (Final /\ result.kind = "ok") =>
    \A m \in Reach(G) : \A d \in Imp(G, m) : Before(compiled, d, m)

\* nothing is compiled unless the whole graph was loaded and is acyclic
CompileOnlyWhenSound == compiled # <<>> => (~HasMissing(G) /\ ~HasCycle(G) /\ ~BrokenReached)

\* ---- case generation for the binding ------------------------------------------------
CaseOf == [G |-> G, broken |-> broken, kind |-> result.kind,
           loaded |-> loaded, parsed |-> parsed, compiled |-> compiled, valids |-> valids]
PrintCase == (Final /\ (result.kind # "ok" \/ order = compiled)) => PrintT(<<"CASE", ToJson(CaseOf)>>)
=============================================================================
