--------------------------------- MODULE Peg ---------------------------------
(***************************************************************************)
(* The memoizing backtracking parser engine of oal-model/src/grammar.rs    *)
(* (Context, memoize, repeat, intersperse, parse_token_with, compose,      *)
(* compose_node with indextree's detach-on-append) as a state-passing      *)
(* interpreter over grammar terms.  The grammar itself (every function of  *)
(* oal-syntax/src/parser.rs, in the same order of alternatives) is data:   *)
(* see OxlipGrammar.tla.                                                   *)
(*                                                                         *)
(* Engine state st:                                                        *)
(*   ar      arena: sequence of [kind, tok, kids, parent]                  *)
(*   cache   set of [s, tag, r] entries  ((cursor, tag) -> result)         *)
(*   reads   one per Context::pop (also at end of input)                   *)
(*   hits    one per successful lookup                                     *)
(*   stuck   a repeat/intersperse iteration succeeded without progress     *)
(*   nocache Context::without_cache                                        *)
(* A cursor is an index into the token sequence (trivia included);         *)
(* Len+1 is the invalid cursor (end of input).                             *)
(***************************************************************************)
EXTENDS Naturals, Sequences, FiniteSets, TLC

CONSTANT Trivia            \* token kinds skipped by the engine

\* ---- grammar term constructors ---------------------------------------------
Tok(S)          == [k |-> "tok", set |-> S]
Call(p)         == [k |-> "call", p |-> p]
Alt(es)         == [k |-> "alt", es |-> es]
Memo(t, e)      == [k |-> "memo", tag |-> t, e |-> e]

Req(e)          == [k |-> "req", e |-> e]
Opt(e)          == [k |-> "opt", e |-> e]
OrEmpty(e, kd)  == [k |-> "orempty", e |-> e, kind |-> kd]
Rep(ps)         == [k |-> "rep", ps |-> ps]
Inter(p, ifx)   == [k |-> "inter", p |-> p, infix |-> ifx]
OptReq(e1, e2)  == [k |-> "optreq", e1 |-> e1, e2 |-> e2]
First(alts)     == [k |-> "first", alts |-> alts]
DeclCheck       == [k |-> "declcheck"]

Compose(kd)     == [k |-> "compose", kind |-> kd]     \* Syntax(kind) when there are no children
Node(kd)        == [k |-> "node", kind |-> kd]        \* always a node
Variadic        == [k |-> "variadic"]                 \* single operand passes through

\* ---- cursors ------------------------------------------------------------------
RECURSIVE Skip(_, _)
Skip(toks, i) == IF i <= Len(toks) /\ toks[i] \in Trivia THEN Skip(toks, i + 1) ELSE i
HeadCursor(toks) == Skip(toks, 1)
Valid(toks, s) == s <= Len(toks)

\* ---- results -------------------------------------------------------------------
NoMatch == [k |-> "none"]
NoErr   == [msg |-> "", at |-> 0]
MTok(i)  == [k |-> "tok", i |-> i]
MSyn(kd) == [k |-> "syn", kind |-> kd]
MNode(n) == [k |-> "node", id |-> n]

Ok(st, s, m)    == [st |-> st, ok |-> TRUE,  s |-> s, m |-> m, e |-> NoErr]
Fail(st, msg, at) == [st |-> st, ok |-> FALSE, s |-> at, m |-> NoMatch, e |-> [msg |-> msg, at |-> at]]

EmptyState(nocache) == [ar |-> <<>>, cache |-> {}, reads |-> 0, hits |-> 0, stuck |-> FALSE, nocache |-> nocache]

\* ---- arena (generational_indextree) ------------------------------------------------
NewNode(st, kd, tk) ==
  [st EXCEPT !.ar = Append(st.ar, [kind |-> kd, tok |-> tk, kids |-> <<>>, parent |-> 0])]

RemoveFrom(seq, x) == SelectSeq(seq, LAMBDA y : y # x)

\* parent.append(child): the child is detached from its previous parent first
AppendChild(st, p, c) ==
  LET old == st.ar[c].parent
      ar1 == IF old = 0 THEN st.ar ELSE [st.ar EXCEPT ![old].kids = RemoveFrom(@, c)]
      ar2 == [ar1 EXCEPT ![c].parent = p, ![p].kids = Append(@, c)]
  IN [st EXCEPT !.ar = ar2]

RECURSIVE AddChildren(_, _, _, _)
AddChildren(st, p, ms, i) ==
  IF i > Len(ms) THEN st
  ELSE LET m == ms[i] IN
       IF m.k = "node" THEN AddChildren(AppendChild(st, p, m.id), p, ms, i + 1)
       ELSE LET st1 == IF m.k = "tok" THEN NewNode(st, "Leaf", m.i) ELSE NewNode(st, m.kind, 0)
            IN AddChildren(AppendChild(st1, p, Len(st1.ar)), p, ms, i + 1)

\* Context::compose_node
ComposeNode(st, kd, ms) ==
  LET st1 == NewNode(st, kd, 0)
      p == Len(st1.ar)
  IN [st |-> AddChildren(st1, p, ms, 1), m |-> MNode(p)]

\* Context::compose
ComposeM(st, kd, ms) == IF ms = <<>> THEN [st |-> st, m |-> MSyn(kd)] ELSE ComposeNode(st, kd, ms)

\* ---- cache -------------------------------------------------------------------------
Lookup(st, tag, s) == {c \in st.cache : c.s = s /\ c.tag = tag}

Strip(r) == [ok |-> r.ok, s |-> r.s, m |-> r.m, e |-> r.e]

\* ---- the interpreter ---------------------------------------------------------------
\* EvalE(G, toks, e, st, s): result record;  G: production name -> [steps, fin]
RECURSIVE EvalE(_, _, _, _, _), RunSteps(_, _, _, _, _, _, _), RunRep(_, _, _, _, _, _, _, _),
          RunInter(_, _, _, _, _, _, _), EvalAlt(_, _, _, _, _, _), RunFirst(_, _, _, _, _, _, _)

\* steps of a production from index i with collected matches ns: [st, ok, s, ns, e]
SOk(st, s, ns)  == [st |-> st, ok |-> TRUE, s |-> s, ns |-> ns, e |-> NoErr]
SFail(st, e)    == [st |-> st, ok |-> FALSE, s |-> 0, ns |-> <<>>, e |-> e]

EvalE(G, toks, e, st, s) ==
  CASE e.k = "tok" ->
         \* parse_token_with: pop, then test the predicate
         LET st1 == [st EXCEPT !.reads = @ + 1] IN
         IF Valid(toks, s) /\ toks[s] \in e.set
         THEN Ok(st1, Skip(toks, s + 1), MTok(s))
         ELSE Fail(st1, "unexpected token or end of input", s)
    [] e.k = "alt" -> EvalAlt(G, toks, e.es, 1, st, s)
    [] e.k = "memo" ->
         IF st.nocache THEN EvalE(G, toks, e.e, st, s)
         ELSE LET hit == Lookup(st, e.tag, s) IN
              IF hit # {}
              THEN LET c == CHOOSE c \in hit : TRUE IN
                   [st |-> [st EXCEPT !.hits = @ + 1], ok |-> c.r.ok, s |-> c.r.s, m |-> c.r.m, e |-> c.r.e]
              ELSE LET r == EvalE(G, toks, e.e, st, s) IN
                   [r EXCEPT !.st = [r.st EXCEPT !.cache = @ \cup {[s |-> s, tag |-> e.tag, r |-> Strip(r)]}]]
    [] e.k = "call" ->
         LET p == G[e.p]
             r == RunSteps(G, toks, p.steps, 1, st, s, <<>>)
         IN IF ~r.ok THEN [st |-> r.st, ok |-> FALSE, s |-> r.e.at, m |-> NoMatch, e |-> r.e]
            ELSE CASE p.fin.k = "compose" -> LET c == ComposeM(r.st, p.fin.kind, r.ns) IN Ok(c.st, r.s, c.m)
                   [] p.fin.k = "node" -> LET c == ComposeNode(r.st, p.fin.kind, r.ns) IN Ok(c.st, r.s, c.m)
                   [] p.fin.k = "variadic" ->
                        IF Len(r.ns) = 1 THEN Ok(r.st, r.s, r.ns[1])
                        ELSE LET c == ComposeM(r.st, "VariadicOp", r.ns) IN Ok(c.st, r.s, c.m)

\* a.or_else(|_| b)...: the first success, otherwise the error of the last alternative
EvalAlt(G, toks, es, i, st, s) ==
  LET r == EvalE(G, toks, es[i], st, s) IN
  IF r.ok \/ i = Len(es) THEN r ELSE EvalAlt(G, toks, es, i + 1, r.st, s)

RunSteps(G, toks, steps, i, st, s, ns) ==
  IF i > Len(steps) THEN SOk(st, s, ns)
  ELSE LET x == steps[i] IN
    CASE x.k = "req" ->
           LET r == EvalE(G, toks, x.e, st, s) IN
           IF r.ok THEN RunSteps(G, toks, steps, i + 1, r.st, r.s, Append(ns, r.m)) ELSE SFail(r.st, r.e)
      [] x.k = "opt" ->
           LET r == EvalE(G, toks, x.e, st, s) IN
           IF r.ok THEN RunSteps(G, toks, steps, i + 1, r.st, r.s, Append(ns, r.m))
           ELSE RunSteps(G, toks, steps, i + 1, r.st, s, ns)
      [] x.k = "orempty" ->
           LET r == EvalE(G, toks, x.e, st, s) IN
           IF r.ok THEN RunSteps(G, toks, steps, i + 1, r.st, r.s, Append(ns, r.m))
           ELSE RunSteps(G, toks, steps, i + 1, r.st, s, Append(ns, MSyn(x.kind)))
      [] x.k = "optreq" ->
           LET r1 == EvalE(G, toks, x.e1, st, s) IN
           IF ~r1.ok THEN RunSteps(G, toks, steps, i + 1, r1.st, s, ns)
           ELSE LET r2 == EvalE(G, toks, x.e2, r1.st, r1.s) IN
                IF r2.ok THEN RunSteps(G, toks, steps, i + 1, r2.st, r2.s, ns \o <<r1.m, r2.m>>)
                ELSE SFail(r2.st, r2.e)
      [] x.k = "rep" ->
           LET r == RunRep(G, toks, x.ps, 1, st, s, ns, s) IN
           RunSteps(G, toks, steps, i + 1, r.st, r.s, r.ns)
      [] x.k = "inter" ->
           LET r0 == EvalE(G, toks, x.p, st, s) IN
           IF ~r0.ok THEN SFail(r0.st, r0.e)
           ELSE LET r == RunInter(G, toks, x.p, x.infix, r0.st, r0.s, Append(ns, r0.m)) IN
                RunSteps(G, toks, steps, i + 1, r.st, r.s, r.ns)
      [] x.k = "first" ->
           LET r == RunFirst(G, toks, x.alts, 1, st, s, ns) IN
           RunSteps(G, toks, steps, i + 1, r.st, r.s, r.ns)
      [] x.k = "declcheck" ->
           \* `let @x b.. =` : a reference identifier cannot have bindings
           IF ns[Len(ns) - 1].k = "tok" /\ toks[ns[Len(ns) - 1].i] = "IdentifierReference" /\ ns[Len(ns)].k = "node"
           THEN SFail(st, [msg |-> "invalid reference identifier (function)", at |-> s])
           ELSE RunSteps(G, toks, steps, i + 1, st, s, ns)

\* grammar::repeat: cycle through ps, keep partial progress, stop at the first failure
RunRep(G, toks, ps, j, st, s, ns, cycleStart) ==
  LET r == EvalE(G, toks, ps[j], st, s) IN
  IF ~r.ok THEN SOk(r.st, s, ns)
  ELSE IF j = Len(ps)
       THEN IF r.s = cycleStart
            THEN SOk([r.st EXCEPT !.stuck = TRUE], r.s, Append(ns, r.m))      \* would loop forever
            ELSE RunRep(G, toks, ps, 1, r.st, r.s, Append(ns, r.m), r.s)
       ELSE RunRep(G, toks, ps, j + 1, r.st, r.s, Append(ns, r.m), cycleStart)

\* grammar::intersperse after the first element
RunInter(G, toks, p, infix, st, s, ns) ==
  LET r1 == EvalE(G, toks, infix, st, s) IN
  IF ~r1.ok THEN SOk(r1.st, s, ns)
  ELSE LET r2 == EvalE(G, toks, p, r1.st, r1.s) IN
       IF ~r2.ok THEN SOk(r2.st, s, ns)
       ELSE IF r2.s = s THEN SOk([r2.st EXCEPT !.stuck = TRUE], r2.s, ns \o <<r1.m, r2.m>>)
       ELSE RunInter(G, toks, p, infix, r2.st, r2.s, ns \o <<r1.m, r2.m>>)

\* parse_content: the first alternative list that succeeds pushes its matches; none: nothing
RunFirst(G, toks, alts, j, st, s, ns) ==
  IF j > Len(alts) THEN SOk(st, s, ns)
  ELSE LET r == RunSteps(G, toks, alts[j], 1, st, s, <<>>) IN
       IF r.ok THEN SOk(r.st, r.s, ns \o r.ns) ELSE RunFirst(G, toks, alts, j + 1, r.st, s, ns)

\* ---- a whole parse (oal_syntax::parse after tokenization) ----------------------------------
Parse(G, toks, entry, nocache) == EvalE(G, toks, Call(entry), EmptyState(nocache), HeadCursor(toks))

\* ---- extraction ---------------------------------------------------------------------------
\* pre-order list of [k: kind, a: number of children]; leaves are [k: "Leaf", a: 0-based token index]
RECURSIVE Flat(_, _), FlatKids(_, _, _)
Flat(ar, n) ==
  IF ar[n].kind = "Leaf" THEN <<[k |-> "Leaf", a |-> ar[n].tok - 1]>>
  ELSE <<[k |-> ar[n].kind, a |-> Len(ar[n].kids)]>> \o FlatKids(ar, ar[n].kids, 1)
FlatKids(ar, kids, i) == IF i > Len(kids) THEN <<>> ELSE Flat(ar, kids[i]) \o FlatKids(ar, kids, i + 1)

RECURSIVE Leaves(_, _), LeavesKids(_, _, _)
Leaves(ar, n) == IF ar[n].kind = "Leaf" THEN <<ar[n].tok>> ELSE LeavesKids(ar, ar[n].kids, 1)
LeavesKids(ar, kids, i) == IF i > Len(kids) THEN <<>> ELSE Leaves(ar, kids[i]) \o LeavesKids(ar, kids, i + 1)

RECURSIVE Reachable(_, _), ReachKids(_, _, _)
Reachable(ar, n) == {n} \cup ReachKids(ar, ar[n].kids, 1)
ReachKids(ar, kids, i) == IF i > Len(kids) THEN {} ELSE Reachable(ar, kids[i]) \cup ReachKids(ar, kids, i + 1)

\* the observable outcome of a run (what both the cached and the uncached parser must agree on)
Outcome(r) ==
  IF r.ok THEN [ok |-> TRUE, rest |-> r.s,
                tree |-> IF r.m.k = "node" THEN Flat(r.st.ar, r.m.id)
                         ELSE IF r.m.k = "syn" THEN <<[k |-> r.m.kind, a |-> 0]>> ELSE <<[k |-> "Token", a |-> r.m.i - 1]>>,
                err |-> "", at |-> 0]
  ELSE [ok |-> FALSE, rest |-> 0, tree |-> <<>>, err |-> r.e.msg, at |-> r.e.at]
=============================================================================
