-------------------------------- MODULE EvalOp --------------------------------
(***************************************************************************)
(* Operational model of oal-compiler/src/eval.rs with its state:           *)
(*   refs          the ordered table of references: name -> None | Some    *)
(*   scopes        the dynamic stack of (scope id, bindings)               *)
(*   scope_id_seq  the global sequence of scope identifiers                *)
(* Values are variants (as in EvalAbs.tla) that additionally carry the     *)
(* name of the reference they stand for.  The evaluator is state passing:  *)
(* every clause returns [v, st]; st.ev is the sequence of events that the  *)
(* real evaluator emits through hook H3 (push/pop of scopes, lookups by    *)
(* name with the scope that answered, reference insertions None/Some),     *)
(* which is what trace validation compares.                                *)
(* Names: ["@", text] explicit reference; ["d", module, path] recursive    *)
(* declaration (hash of the node, unscoped); ["r", scope id, module, path] *)
(* rec expression (hash of the innermost scope id and the node).           *)
(***************************************************************************)
EXTENDS EvalAbs

NoName == [k |-> "", t |-> "", s |-> 0, m |-> "", p |-> <<>>]
NameAt(t) == [k |-> "@", t |-> t, s |-> 0, m |-> "", p |-> <<>>]
NameDecl(m, p) == [k |-> "d", t |-> "", s |-> 0, m |-> m, p |-> p]
NameRec(s, m, p) == [k |-> "r", t |-> "", s |-> s, m |-> m, p |-> p]

W(k) == [k |-> k, op |-> "", i |-> <<>>, fn |-> <<>>, nm |-> NoName]
WOp(o) == [k |-> "VariadicOp", op |-> o, i |-> <<>>, fn |-> <<>>, nm |-> NoName]
WRef(nm, inner) == [k |-> "Reference", op |-> "", i |-> <<inner>>, fn |-> <<>>, nm |-> nm]
WRec(nm) == [k |-> "Recursion", op |-> "", i |-> <<>>, fn |-> <<>>, nm |-> nm]
WLam(m, p) == [k |-> "Lambda", op |-> "", i |-> <<>>, fn |-> <<m, p>>, nm |-> NoName]
WLamInt == [k |-> "Lambda", op |-> "concat", i |-> <<>>, fn |-> <<>>, nm |-> NoName]
WCrash(site, v, m) == [k |-> "CRASH", op |-> site, i |-> <<>>, fn |-> <<Deref0(v).k, Deref0(v).op, m>>, nm |-> NoName]
WDiverge == [k |-> "DIVERGE", op |-> "", i |-> <<>>, fn |-> <<>>, nm |-> NoName]
WLocated(what) == [k |-> "ERROR", op |-> what, i |-> <<>>, fn |-> <<>>, nm |-> NoName]
\* as in EvalAbs.tla: number literals keep their text; only 100..599 are HTTP statuses
OStatusTexts == {"100", "101", "200", "201", "202", "204", "301", "302", "304", "400", "401", "403", "404", "409", "422", "500", "501", "503", "599"}

\* events: [e, n (scope id), xs (names), nm (reference name)]
Event(e, n, xs, nm) == [e |-> e, n |-> n, xs |-> xs, nm |-> nm]

InitState == [seq |-> 0, refs |-> <<>>, ev |-> <<>>]
Emit(st, e) == [st EXCEPT !.ev = Append(@, e)]

\* the reference table: sequence of [nm, some, v]; insert keeps the position of an existing key (IndexMap)
RefIdx(st, nm) == IF \E j \in 1..Len(st.refs) : st.refs[j].nm = nm THEN CHOOSE j \in 1..Len(st.refs) : st.refs[j].nm = nm ELSE 0
RefInsert(st, nm, some, v) ==
  LET j == RefIdx(st, nm) IN
  IF j = 0 THEN [st EXCEPT !.refs = Append(@, [nm |-> nm, some |-> some, v |-> v])]
  ELSE [st EXCEPT !.refs[j] = [nm |-> nm, some |-> some, v |-> v]]

R(v, st) == [v |-> v, st |-> st]

RECURSIVE LookupOp(_, _, _)
LookupOp(env, s, x) ==         \* [found, id, v]
  IF s = 0 THEN [found |-> FALSE, id |-> 0, v |-> W("none")]
  ELSE LET sc == env[s].binds
           hit == {j \in 1..Len(sc) : sc[j][1] = x}
       IN IF hit # {} THEN [found |-> TRUE, id |-> env[s].id, v |-> sc[CHOOSE j \in hit : TRUE][2]]
          ELSE LookupOp(env, s - 1, x)

SortedNames(names) ==          \* the hook prints the names of a scope sorted
  LET S == {names[j] : j \in 1..Len(names)} IN S

RECURSIVE Eo(_, _, _, _, _, _), EoAll(_, _, _, _, _, _, _)

CastOK(c, v) ==
  CASE c = "schema" -> CastSchema(v) [] c = "property" -> CastProperty(v) [] c = "ranges" -> CastRanges(v)
    [] c = "content" -> CastContent(v) [] c = "string" -> CastString(v) [] c = "object" -> CastObject(v)
    [] c = "status" -> CastStatus(v) [] c = "transfer" -> CastTransfer(v) [] c = "uri" -> CastUri(v)
    [] c = "relation" -> CastRelation(v) [] OTHER -> TRUE

\* children idxs (<<child index, cast>>) evaluated left to right, threading the state
EoAll(ctx, m, p, idxs, env, st, fuel) ==
  IF idxs = <<>> THEN R(W("OK"), st)
  ELSE LET c == idxs[1]
           r == Eo(ctx, m, Append(p, c[1]), env, st, fuel)
       IN IF Bad(r.v) THEN r
          ELSE IF ~CastOK(c[2], r.v) THEN R(WCrash("cast_" \o c[2], r.v, m), r.st)
          ELSE IF c[2] = "status" /\ Deref(r.v).k = "Number" /\ Deref(r.v).op \notin OStatusTexts THEN R(WLocated("status-domain"), r.st)
          ELSE EoAll(ctx, m, p, Tail(idxs), env, r.st, fuel)

Eo(ctx, m, p, env, st, fuel) ==
  IF fuel = 0 THEN R(WDiverge, st)
  ELSE
  LET nd == NodeAt(ctx.prog, m, p)
      all(idxs, result) == LET r == EoAll(ctx, m, p, idxs, env, st, fuel - 1) IN IF Bad(r.v) THEN r ELSE R(result, r.st)
      kids(cast) == [j \in 1..Len(nd.a) |-> <<j, cast>>]
  IN
  CASE nd.k = "lit"  -> R(IF nd.s = "num" THEN [W("Number") EXCEPT !.op = nd.q] ELSE W(IF nd.s = "str" THEN "String" ELSE "HttpStatus"), st)
    [] nd.k = "prim" -> R(IF nd.s = "uri" THEN W("Uri") ELSE W("Prim"), st)
    [] nd.k = "obj"  -> all(kids("property"), W("Object"))
    [] nd.k = "prop" -> all(<<<<1, "schema">>>>, W("Property"))
    [] nd.k = "arr"  -> all(<<<<1, "schema">>>>, W("Array"))
    [] nd.k = "op"   -> IF nd.s = "::" THEN all(kids("ranges"), W("Ranges")) ELSE all(kids("schema"), WOp(nd.s))
    [] nd.k = "un"   -> all(<<<<1, "property">>>>, W("Property"))
    [] nd.k = "meta" -> Eo(ctx, m, Append(p, 1), env, st, fuel - 1)
    [] nd.k = "cnt"  ->
         all((IF Len(nd.a) > nd.n THEN <<<<nd.n + 1, "schema">>>> ELSE <<>>)
             \o [j \in 1..nd.n |-> <<j, CASE nd.a[j].s = "media" -> "string" [] nd.a[j].s = "headers" -> "object" [] OTHER -> "status">>],
             W("Content"))
    [] nd.k = "uvar" -> Eo(ctx, m, Append(p, 1), env, st, fuel - 1)
    [] nd.k = "seg"  -> R(W("OK"), st)
    [] nd.k = "uri"  ->
         LET nseg == Len(nd.a) - nd.n
             vs == SelectSeq([j \in 1..nseg |-> j], LAMBDA j : nd.a[j].k = "uvar")
         IN all([j \in 1..Len(vs) |-> <<vs[j], "property">>] \o (IF nd.n = 1 THEN <<<<Len(nd.a), "object">>>> ELSE <<>>), W("Uri"))
    [] nd.k = "rel"  -> all(<<<<1, "uri">>>> \o [j \in 1..(Len(nd.a) - 1) |-> <<j + 1, "transfer">>], W("Relation"))
    [] nd.k = "xfer" ->
         all((IF nd.n \in {2, 3} THEN <<<<(IF nd.n = 3 THEN 2 ELSE 1), "content">>>> ELSE <<>>)
             \o <<<<Len(nd.a), "ranges">>>>
             \o (IF nd.n \in {1, 3} THEN <<<<1, "object">>>> ELSE <<>>), W("Transfer"))
    [] nd.k = "res"  -> all(<<<<1, "relation">>>>, W("OK"))
    [] nd.k = "rec"  ->
         \* eval_recursion: identifier from the innermost scope id, push, evaluate, pop, register
         LET sid == IF env = <<>> THEN 0 ELSE env[Len(env)].id
             nm == NameRec(sid, m, p)
             id == st.seq + 1
             st1 == Emit([st EXCEPT !.seq = id], Event("push", id, {nd.s}, NoName))
             r == Eo(ctx, m, Append(p, 1), Append(env, [id |-> id, binds |-> <<<<nd.s, WRec(nm)>>>>]), st1, fuel - 1)
         IN IF Bad(r.v) THEN r
            ELSE LET st2 == Emit(Emit(r.st, Event("pop", 0, {}, NoName)), Event("ref-rec", 0, {}, nm))
                 IN R(WRef(nm, r.v), RefInsert(st2, nm, TRUE, r.v))
    [] nd.k = "var"  ->
         LET b == (CHOOSE r \in ctx.tables[m] : r.use = p).b IN
         CASE b.kind = "internal" -> R(WLamInt, st)
           [] b.kind \in {"param", "rec"} ->
                \* eval_binding: lookup by NAME on the dynamic stack
                LET l == LookupOp(env, Len(env), nd.s) IN
                IF ~l.found THEN R(WCrash("lookup_binding", W(nd.s), m), st)
                ELSE R(l.v, Emit(st, Event("lookup", l.id, {nd.s}, NoName)))
           [] OTHER ->
                LET d == ctx.prog.mods[b.m][b.p[1]] IN
                IF d.n > 0 THEN R(WLam(b.m, b.p), st)
                ELSE IF d.q = "@" \/ b.p \in ctx.res[b.m].rec
                THEN LET nm == IF d.q = "@" THEN NameAt(d.s) ELSE NameDecl(b.m, b.p)
                         j == RefIdx(st, nm)
                     IN IF j # 0
                        THEN IF st.refs[j].some THEN R(WRef(nm, st.refs[j].v), st) ELSE R(WRec(nm), st)
                        ELSE LET st1 == Emit(RefInsert(st, nm, FALSE, W("none")), Event("ref-none", 0, {}, nm))
                                 r == Eo(ctx, b.m, <<b.p[1], 1>>, env, st1, fuel - 1)
                             IN IF Bad(r.v) THEN r
                                ELSE R(WRef(nm, r.v), Emit(RefInsert(r.st, nm, TRUE, r.v), Event("ref-some", 0, {}, nm)))
                ELSE Eo(ctx, b.m, <<b.p[1], 1>>, env, st, fuel - 1)
    [] nd.k = "app"  ->
         LET f == Eo(ctx, m, Append(p, 1), env, st, fuel - 1) IN
         IF Bad(f.v) THEN f
         ELSE IF ~CastLambda(f.v) THEN R(WCrash("cast_lambda", f.v, m), f.st)
         ELSE LET lam == Deref(f.v)
                  nargs == Len(nd.a) - 1
              IN IF lam.op = "concat"
                 THEN LET r == EoAll(ctx, m, p, [j \in 1..nargs |-> <<j + 1, "uri">>], env, f.st, fuel - 1)
                      IN IF Bad(r.v) THEN r ELSE R(W("Uri"), r.st)
                 ELSE LET d == ctx.prog.mods[lam.fn[1]][lam.fn[2][1]]
                          k == IF nargs < d.n THEN nargs ELSE d.n
                          RECURSIVE Args(_, _, _)
                          Args(j, s, acc) ==         \* arguments evaluated eagerly, in order, in the caller's scope
                            IF j > k THEN [ok |-> TRUE, st |-> s, vs |-> acc, bad |-> W("OK")]
                            ELSE LET r == Eo(ctx, m, Append(p, j + 1), env, s, fuel - 1) IN
                                 IF Bad(r.v) THEN [ok |-> FALSE, st |-> r.st, vs |-> acc, bad |-> r.v]
                                 ELSE Args(j + 1, r.st, Append(acc, r.v))
                          ar == Args(1, f.st, <<>>)
                      IN IF ~ar.ok THEN R(ar.bad, ar.st)
                         ELSE LET id == ar.st.seq + 1
                                  names == {d.a[j].s : j \in 1..k}
                                  st1 == Emit([ar.st EXCEPT !.seq = id], Event("push", id, names, NoName))
                                  r == Eo(ctx, lam.fn[1], <<lam.fn[2][1], d.n + 1>>,
                                          Append(env, [id |-> id, binds |-> [j \in 1..k |-> <<d.a[j].s, ar.vs[j]>>]]), st1, fuel - 1)
                              IN IF Bad(r.v) THEN r ELSE R(r.v, Emit(r.st, Event("pop", 0, {}, NoName)))
    [] OTHER -> R(WCrash("unexpected node", W(nd.k), m), st)

RECURSIVE EoRes(_, _, _, _)
EoRes(ctx, i, st, fuel) ==
  LET stmts == ctx.prog.mods[ctx.prog.main] IN
  IF i > Len(stmts) THEN R(W("OK"), st)
  ELSE IF stmts[i].k # "res" THEN EoRes(ctx, i + 1, st, fuel)
  ELSE LET r == Eo(ctx, ctx.prog.main, <<i>>, <<>>, st, fuel) IN IF Bad(r.v) THEN r ELSE EoRes(ctx, i + 1, r.st, fuel)

Run(prog) ==
  LET c == Compile(prog) IN
  IF ~c.ok THEN [v |-> [k |-> "REJECTED", op |-> c.phase, i |-> <<>>, fn |-> <<>>, nm |-> NoName], st |-> InitState, rec |-> <<>>]
  ELSE LET ctx == [prog |-> prog, res |-> c.res, tables |-> [m \in DOMAIN c.res |-> RefResolve(prog, m).table]]
           r == EoRes(ctx, 1, InitState, EvalFuel)
       IN [v |-> r.v, st |-> r.st, rec |-> [m \in DOMAIN c.res |-> c.res[m].rec]]

\* ---- properties of one run ------------------------------------------------------------------------
\* a component is registered for every reference that is Some and whose value is not an inlined atomic one
\* maybe_inline: only implicit references to atomic schemas (number, string, boolean, integer, relation, URI) are inlined;
\* a reference whose value is itself a reference or a recursion marker is registered as a component
Compound(v) == v.k \notin {"Prim", "Uri", "Relation"}
Components(st) == {st.refs[j].nm : j \in {x \in 1..Len(st.refs) : st.refs[x].some /\ (st.refs[x].nm.k = "@" \/ Compound(st.refs[x].v))}}

\* every reference goes None -> Some (or directly Some for rec expressions) and ends Some
AllResolved(st) == \A j \in 1..Len(st.refs) : st.refs[j].some
\* scopes are balanced
Balanced(st) == Cardinality({j \in 1..Len(st.ev) : st.ev[j].e = "push"}) = Cardinality({j \in 1..Len(st.ev) : st.ev[j].e = "pop"})
\* scope identifiers are never reused
FreshIds(st) == \A a, b \in 1..Len(st.ev) : (a # b /\ st.ev[a].e = "push" /\ st.ev[b].e = "push") => st.ev[a].n # st.ev[b].n
\* two registrations of one rec name come from the same node under the same scope (one instantiation)
RunOK(run) == run.v.k = "OK" => AllResolved(run.st) /\ Balanced(run.st) /\ FreshIds(run.st)
=============================================================================
