------------------------------ MODULE EvalOpMC ------------------------------
(***************************************************************************)
(* Recursion families for EvalOp.tla: RecGraphs (every dependency graph    *)
(* over N declarations of kind object / array / alias / content / sum /    *)
(* function) and RecInst (instantiations of rec expressions: inside        *)
(* functions applied once, twice, three times, nested, imported; rec in    *)
(* rec; explicit references).  One initial state per program.              *)
(***************************************************************************)
EXTENDS EvalOp, Families, Json, IOUtils

CONSTANTS GraphSize, Members         \* Members: "graphs" or "inst"

VARIABLE prog
Init == prog \in (IF Members = "graphs" THEN RecGraphs(GraphSize) ELSE {RecInst(nm) : nm \in RecInstNames})
Next == UNCHANGED prog

EvSeq(st) == [j \in 1..Len(st.ev) |-> [e |-> st.ev[j].e, n |-> st.ev[j].n,
                                         xs |-> LET S == st.ev[j].xs IN IF S = {} THEN <<>> ELSE
                                                CHOOSE f \in [1..Cardinality(S) -> S] : \A a, b \in DOMAIN f : a # b => f[a] # f[b],
                                         nm |-> st.ev[j].nm]]

PrintCase ==
  LET run == Run(prog) IN
  /\ Assert(RunOK(run), <<"RunOK", prog>>)
  /\ PrintT(<<"CASE", ToJson([prog |-> prog, outcome |-> run.v.k, site |-> run.v.op, variant |-> run.v.fn,
                              phase |-> IF run.v.k = "REJECTED" THEN run.v.op ELSE "",
                              rec |-> IF run.v.k = "REJECTED" THEN <<>> ELSE
                                      LET S == run.rec["m1"] IN IF S = {} THEN <<>> ELSE
                                      CHOOSE f \in [1..Cardinality(S) -> S] : \A a, b \in DOMAIN f : a # b => f[a] # f[b],
                              ncomp |-> Cardinality(Components(run.st)),
                              refs |-> [j \in 1..Len(run.st.refs) |-> [nm |-> run.st.refs[j].nm, some |-> run.st.refs[j].some]],
                              events |-> EvSeq(run.st)])>>)
=============================================================================
