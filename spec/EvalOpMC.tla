------------------------------ MODULE EvalOpMC ------------------------------
(***************************************************************************)
(* Recursion families for EvalOp.tla: RecGraphs (every dependency graph    *)
(* over N declarations of kind object / array / alias / content / sum /    *)
(* function) and RecInst (instantiations of rec expressions: inside        *)
(* functions applied once, twice, three times, nested, imported; rec in    *)
(* rec; explicit references).  One initial state per program.              *)
(***************************************************************************)
EXTENDS EvalOp, Families, Json, IOUtils

CONSTANTS GraphSize, Members,        \* Members: "graphs", "inst", "file" or "graphs-<kind of the first declaration>"
          FirstKind                  \* for "graphs-first": the slice of RecGraphs to enumerate

VARIABLE prog
\* oracle mode: programs supplied by the driver (random composites)
FilePrograms == ndJsonDeserialize(IOEnv.PROGRAMS)
Init == prog \in (CASE Members = "graphs" -> RecGraphs(GraphSize)
                    [] Members = "graphs-first" -> RecGraphsFirst(GraphSize, FirstKind)
                    [] Members = "file" -> {FilePrograms[i] : i \in 1..Len(FilePrograms)}
                    [] OTHER -> {RecInst(nm) : nm \in RecInstNames})
Next == UNCHANGED prog

RECURSIVE SetToSeq(_)
SetToSeq(S) == IF S = {} THEN <<>> ELSE LET x == CHOOSE x \in S : TRUE IN <<x>> \o SetToSeq(S \ {x})

EvSeq(st) == [j \in 1..Len(st.ev) |-> [e |-> st.ev[j].e, n |-> st.ev[j].n,
                                         xs |-> LET S == st.ev[j].xs IN IF S = {} THEN <<>> ELSE
                                                SetToSeq(S),
                                         nm |-> st.ev[j].nm]]

PrintCase ==
  LET run == Run(prog) IN
  /\ Assert(RunOK(run), <<"RunOK", prog>>)
  /\ PrintT(<<"CASE", ToJson([prog |-> prog, outcome |-> run.v.k, site |-> run.v.op, variant |-> run.v.fn,
                              phase |-> IF run.v.k = "REJECTED" THEN run.v.op ELSE "",
                              rec |-> IF run.v.k = "REJECTED" THEN <<>> ELSE
                                      LET S == run.rec["m1"] IN IF S = {} THEN <<>> ELSE
                                      SetToSeq(S),
                              ncomp |-> Cardinality(Components(run.st)),
                              refs |-> [j \in 1..Len(run.st.refs) |-> [nm |-> run.st.refs[j].nm, some |-> run.st.refs[j].some]],
                              events |-> EvSeq(run.st)])>>)
=============================================================================
