------------------------------- MODULE Unicode -------------------------------
(***************************************************************************)
(* Editor positions (line, UTF-16 column) versus UTF-8 byte offsets.       *)
(*                                                                         *)
(* Mirrors oal-client/src/lsp/unicode.rs:                                  *)
(*   position_to_utf8  (P2U)   utf8_to_position (U2P)                      *)
(* The three Rust loops are transcribed as a state machine with one action *)
(* per loop iteration (Scan / Break); the reference semantics is the       *)
(* declarative reading of LSP 3.17 (a position past the end of a line is   *)
(* clamped to the end of that line, a line past the end of the text to the *)
(* end of the text; line terminators are LF and CR LF and are not part of  *)
(* the line).                                                              *)
(***************************************************************************)
EXTENDS Naturals, Integers, Sequences, FiniteSets, TLC, Json, IOUtils

CONSTANT MaxLen          \* bound on the number of characters of a text

Sym == {"a", "e2", "e3", "e4", "LF", "CR"}

U8(s)  == CASE s = "a" -> 1 [] s = "e2" -> 2 [] s = "e3" -> 3 [] s = "e4" -> 4 [] s = "LF" -> 1 [] s = "CR" -> 1
U16(s) == CASE s = "e4" -> 2 [] OTHER -> 1

SeqsUpTo(n) == UNION {[1..m -> Sym] : m \in 0..n}

\* every CR is immediately followed by LF (the protocol's CR LF terminator)
WellFormed(t) == \A i \in 1..Len(t) : t[i] = "CR" => (i < Len(t) /\ t[i+1] = "LF")

Texts == {t \in SeqsUpTo(MaxLen) : WellFormed(t)}

RECURSIVE Sum8(_, _, _), Sum16(_, _, _)
Sum8(t, i, j)  == IF i > j THEN 0 ELSE U8(t[i]) + Sum8(t, i + 1, j)
Sum16(t, i, j) == IF i > j THEN 0 ELSE U16(t[i]) + Sum16(t, i + 1, j)

Off8(t, k) == Sum8(t, 1, k)              \* byte offset after k characters
Bytes(t)   == Off8(t, Len(t))

Max(S) == CHOOSE x \in S : \A y \in S : y <= x
Min(S) == CHOOSE x \in S : \A y \in S : x <= y

(***************************************************************************)
(* Reference semantics (declarative)                                       *)
(***************************************************************************)
LFsUpTo(t, k) == {j \in 1..k : t[j] = "LF"}
LineOf(t, k)  == Cardinality(LFsUpTo(t, k))
LastLF(t, k)  == Max({0} \cup LFsUpTo(t, k))
Col16(t, k)   == Sum16(t, LastLF(t, k) + 1, k)
NLines(t)     == LineOf(t, Len(t))       \* number of the last line (0-based)

\* character index on a boundary for a byte offset, or -1
KOfOffset(t, i) == IF \E k \in 0..Len(t) : Off8(t, k) = i
                   THEN CHOOSE k \in 0..Len(t) : Off8(t, k) = i ELSE -1

\* an offset strictly inside a CR LF pair has no position under the clamping rule
InsideCRLF(t, k) == k >= 1 /\ k <= Len(t) /\ t[k] = "CR"

RefU2Pk(t, k) == <<LineOf(t, k), Col16(t, k)>>

\* offsets beyond the end behave like the end
RefU2P(t, i) == IF i >= Bytes(t) THEN RefU2Pk(t, Len(t))
                ELSE RefU2Pk(t, KOfOffset(t, i))

\* the character index after which line l starts
LineStartK(t, l) == IF l = 0 THEN 0
                    ELSE Min({j \in 1..Len(t) : t[j] = "LF" /\ LineOf(t, j) = l})
\* the character index of the end of the content of the line starting after s
LineEndK(t, s) == Min({k \in s..Len(t) : k = Len(t) \/ t[k+1] \in {"CR", "LF"}})

\* -1 when the column falls inside a surrogate pair (not a position the protocol can send)
RefP2U(t, l, c) ==
  IF l > NLines(t) THEN Bytes(t)
  ELSE LET s == LineStartK(t, l)
           e == LineEndK(t, s)
       IN IF c >= Sum16(t, s + 1, e) THEN Off8(t, e)
          ELSE IF \E k \in s..e : Sum16(t, s + 1, k) = c
               THEN Off8(t, CHOOSE k \in s..e : Sum16(t, s + 1, k) = c)
               ELSE -1

(***************************************************************************)
(* The implementation's loops as a state machine                           *)
(***************************************************************************)
VARIABLES text, mode, a1, a2, line, chr, idx, k, pc
vars == <<text, mode, a1, a2, line, chr, idx, k, pc>>

MaxCol(t) == Sum16(t, 1, Len(t))

Init ==
  /\ text \in Texts
  /\ mode \in {"p2u", "u2p"}
  /\ \/ mode = "p2u" /\ a1 \in 0..(NLines(text) + 1) /\ a2 \in 0..(MaxCol(text) + 2)
     \/ mode = "u2p" /\ a1 \in 0..(Bytes(text) + 2) /\ a2 = 0
  /\ line = 0 /\ chr = 0 /\ idx = 0 /\ k = 0 /\ pc = "loop"

\* one iteration of `for c in text.chars()` of position_to_utf8
StepP2U ==
  /\ mode = "p2u" /\ pc = "loop"
  /\ IF k = Len(text)
     THEN pc' = "done" /\ UNCHANGED <<line, chr, idx, k>>
     ELSE LET c == text[k + 1] IN
          IF line = a1 /\ (chr = a2 \/ c = "LF" \/ c = "CR")
          THEN pc' = "done" /\ UNCHANGED <<line, chr, idx, k>>           \* break
          ELSE /\ IF line = a1 THEN chr' = chr + U16(c) /\ line' = line
                  ELSE IF c = "LF" THEN line' = line + 1 /\ chr' = chr
                  ELSE UNCHANGED <<line, chr>>
               /\ idx' = idx + U8(c)
               /\ k' = k + 1
               /\ pc' = pc
  /\ UNCHANGED <<text, mode, a1, a2>>

\* one iteration of `for c in text.chars()` of utf8_to_position
StepU2P ==
  /\ mode = "u2p" /\ pc = "loop"
  /\ IF k = Len(text) \/ idx >= a1
     THEN pc' = "done" /\ UNCHANGED <<line, chr, idx, k>>
     ELSE LET c == text[k + 1] IN
          /\ IF c = "LF" THEN line' = line + 1 /\ chr' = 0
             ELSE chr' = chr + U16(c) /\ line' = line
          /\ idx' = idx + U8(c)
          /\ k' = k + 1
          /\ pc' = pc
  /\ UNCHANGED <<text, mode, a1, a2>>

Done == pc = "done" /\ UNCHANGED vars

Next == StepP2U \/ StepU2P \/ Done
Spec == Init /\ [][Next]_vars /\ WF_vars(Next)

\* the domain of the property: offsets on character boundaries that are not strictly
\* inside a CR LF pair (or beyond the end); columns on UTF-16 character boundaries
InDomainU2P == a1 >= Bytes(text) \/ (KOfOffset(text, a1) # -1 /\ ~InsideCRLF(text, KOfOffset(text, a1)))
InDomainP2U == RefP2U(text, a1, a2) # -1

AlgMatchesRef ==
  pc = "done" =>
    /\ (mode = "u2p" /\ InDomainU2P) => <<line, chr>> = RefU2P(text, a1)
    /\ (mode = "p2u" /\ InDomainP2U) => idx = RefP2U(text, a1, a2)

\* outside the domain the implementation still answers within the text
AlgInBounds == pc = "done" => idx <= Bytes(text) /\ line <= NLines(text)

Terminates == <>(pc = "done")

(***************************************************************************)
(* Properties of the reference semantics (hence, by AlgMatchesRef, of the  *)
(* implementation), checked per text in the `cases` configuration.         *)
(***************************************************************************)
Boundaries(t) == {kk \in 0..Len(t) : ~InsideCRLF(t, kk)}

RoundTrip(t) == \A kk \in Boundaries(t) :
  LET p == RefU2Pk(t, kk) IN RefP2U(t, p[1], p[2]) = Off8(t, kk)

Clamp(t) ==
  /\ \A l \in 0..NLines(t) : \A c \in 0..(MaxCol(t) + 2) :
       LET s == LineStartK(t, l)  e == LineEndK(t, s) IN
       c >= Sum16(t, s + 1, e) => RefP2U(t, l, c) = Off8(t, e)
  /\ \A c \in 0..(MaxCol(t) + 2) : RefP2U(t, NLines(t) + 1, c) = Bytes(t)
  /\ \A i \in Bytes(t)..(Bytes(t) + 2) : RefU2P(t, i) = RefU2Pk(t, Len(t))

\* positions are ordered like offsets (needed by replace_range(start..end))
PosLeq(p, q) == p[1] < q[1] \/ (p[1] = q[1] /\ p[2] <= q[2])
Monotone(t) == \A i, j \in Boundaries(t) : i <= j => PosLeq(RefU2Pk(t, i), RefU2Pk(t, j))

\* the range sent for a span selects exactly the span: both ends convert back
RangeSelects(t) == \A i, j \in Boundaries(t) : i <= j =>
  LET p == RefU2Pk(t, i)  q == RefU2Pk(t, j) IN
  /\ RefP2U(t, p[1], p[2]) = Off8(t, i) /\ RefP2U(t, q[1], q[2]) = Off8(t, j)

\* position_to_utf8 is monotone on the positions a client can send (also clamped / out-of-range ones):
\* an edit range start <= end is applied with replace_range(s..e), which needs s <= e
P2UMonotone(t) ==
  \A l1, l2 \in 0..(NLines(t) + 1) : \A c1, c2 \in 0..(MaxCol(t) + 2) :
    (PosLeq(<<l1, c1>>, <<l2, c2>>) /\ RefP2U(t, l1, c1) # -1 /\ RefP2U(t, l2, c2) # -1)
      => RefP2U(t, l1, c1) <= RefP2U(t, l2, c2)

\* applying an edit (range, replacement) through the reference conversion gives what the client
\* computes on its own UTF-16 view: prefix up to the start, replacement, suffix from the end
KOfP(t, l, c) == KOfOffset(t, RefP2U(t, l, c))
EditAgrees(t) ==
  \A l1, l2 \in 0..(NLines(t) + 1) : \A c1, c2 \in 0..(MaxCol(t) + 2) :
    (PosLeq(<<l1, c1>>, <<l2, c2>>) /\ RefP2U(t, l1, c1) # -1 /\ RefP2U(t, l2, c2) # -1)
      => /\ KOfP(t, l1, c1) # -1 /\ KOfP(t, l2, c2) # -1          \* both ends are character boundaries
         /\ KOfP(t, l1, c1) <= KOfP(t, l2, c2)

RefProps == mode = "case" => RoundTrip(text) /\ Clamp(text) /\ Monotone(text) /\ RangeSelects(text)
                             /\ P2UMonotone(text) /\ EditAgrees(text)

(***************************************************************************)
(* Case generation for the binding: one line per text with every expected  *)
(* answer of the reference semantics.                                      *)
(***************************************************************************)
CaseInit ==
  /\ text \in Texts /\ mode = "case"
  /\ a1 = 0 /\ a2 = 0 /\ line = 0 /\ chr = 0 /\ idx = 0 /\ k = 0 /\ pc = "done"

CaseNext == UNCHANGED vars

CaseOf(t) ==
  [ text |-> t,
    u2p |-> [i \in 1..(Bytes(t) + 3) |->
               LET o == i - 1 IN
               IF o >= Bytes(t) \/ (KOfOffset(t, o) # -1 /\ ~InsideCRLF(t, KOfOffset(t, o)))
               THEN <<o, RefU2P(t, o)[1], RefU2P(t, o)[2]>> ELSE <<o, -1, -1>>],
    cs  |-> [i \in 1..(Bytes(t) + 3) |->
               LET o == i - 1 IN
               IF o >= Bytes(t) THEN Len(t) ELSE KOfOffset(t, o)],
    p2u |-> [l \in 1..(NLines(t) + 2) |-> [c \in 1..(MaxCol(t) + 3) |-> RefP2U(t, l - 1, c - 1)]] ]

PrintCase == mode = "case" => PrintT(<<"CASE", ToJson(CaseOf(text))>>)

(***************************************************************************)
(* Oracle mode: results recorded from the real functions on longer texts   *)
(* are judged by the reference semantics (implementation -> spec).         *)
(* Records: [text, u2p: <<o, l, c>>.., p2u: <<l, c, off>>..]               *)
(***************************************************************************)
OracleRec == ndJsonDeserialize(IOEnv.UNICODE_CASES)

OracleInit ==
  /\ mode = "oracle" /\ a1 \in 1..Len(OracleRec)
  /\ text = OracleRec[a1].text
  /\ a2 = 0 /\ line = 0 /\ chr = 0 /\ idx = 0 /\ k = 0 /\ pc = "done"

OracleOK ==
  mode = "oracle" =>
    LET r == OracleRec[a1] t == r.text IN
    /\ WellFormed(t)
    /\ \A i \in 1..Len(r.u2p) :
         LET o == r.u2p[i][1] IN
         (o >= Bytes(t) \/ (KOfOffset(t, o) # -1 /\ ~InsideCRLF(t, KOfOffset(t, o))))
           => RefU2P(t, o) = <<r.u2p[i][2], r.u2p[i][3]>>
    /\ \A i \in 1..Len(r.p2u) :
         LET e == RefP2U(t, r.p2u[i][1], r.p2u[i][2]) IN
         e # -1 => e = r.p2u[i][3]
=============================================================================
