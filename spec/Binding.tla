------------------------------- MODULE Binding -------------------------------
(***************************************************************************)
(* The declarative binding relation of Oxlip programs (see Resolve.tla for *)
(* the state machine of the implementation that is checked against it).    *)
(***************************************************************************)
EXTENDS Ast


Builtins == {"concat"}

B(m, p, kd) == [m |-> m, p |-> p, kind |-> kd]
NoB == B("", <<>>, "none")
Internal(x) == B("", <<>>, "internal")
E(q, x, b) == [q |-> q, x |-> x, b |-> b]

\* ---- declarative reference ---------------------------------------------------------------
\* an environment is a sequence of entries; the last matching entry wins
RECURSIVE LookupSeq(_, _, _, _)
LookupSeq(env, i, q, x) ==
  IF i = 0 THEN NoB
  ELSE IF env[i].q = q /\ env[i].x = x THEN env[i].b ELSE LookupSeq(env, i - 1, q, x)
LookupEnv(env, q, x) == LookupSeq(env, Len(env), q, x)

DeclEntries(prog, m, q) ==
  LET ds == SelectSeq([i \in 1..Len(prog.mods[m]) |-> i], LAMBDA i : prog.mods[m][i].k = "decl")
  IN [j \in 1..Len(ds) |-> E(q, prog.mods[m][ds[j]].s, B(m, <<ds[j]>>, "decl"))]

RECURSIVE ImportEntries(_, _, _)
ImportEntries(prog, us, j) ==
  IF j > Len(us) THEN <<>>
  ELSE DeclEntries(prog, us[j].s, us[j].q) \o ImportEntries(prog, us, j + 1)

BuiltinEntries == LET bs == CHOOSE s \in [1..Cardinality(Builtins) -> Builtins] : \A a, b \in DOMAIN s : a # b => s[a] # s[b]
                  IN [j \in 1..Len(bs) |-> E("", bs[j], Internal(bs[j]))]

RootEnv(prog, m) == BuiltinEntries \o ImportEntries(prog, Uses(prog.mods[m]), 1) \o DeclEntries(prog, m, "")

RECURSIVE WalkE(_, _, _, _)
WalkE(nd, path, env, m) ==
  IF nd.k = "var" THEN {[use |-> path, b |-> LookupEnv(env, nd.q, nd.s)]}
  ELSE IF nd.k = "rec"
  THEN WalkE(nd.a[1], Append(path, 1), Append(env, E("", nd.s, B(m, path, "rec"))), m)
  ELSE UNION {WalkE(nd.a[i], Append(path, i), env, m) : i \in 1..Len(nd.a)}

WalkStmt(st, i, env, m) ==
  IF st.k = "decl"
  THEN WalkE(Rhs(st), <<i, st.n + 1>>, env \o [j \in 1..st.n |-> E("", st.a[j].s, B(m, <<i, j>>, "param"))], m)
  ELSE IF st.k = "res" THEN WalkE(st.a[1], <<i, 1>>, env, m)
  ELSE {}

RefTable(prog, m) == UNION {WalkStmt(prog.mods[m][i], i, RootEnv(prog, m), m) : i \in 1..Len(prog.mods[m])}

DuplicateDecl(prog, m) ==
  LET ds == Decls(prog.mods[m]) IN \E a, b \in 1..Len(ds) : a < b /\ ds[a].s = ds[b].s

\* what resolution of module m must answer
RefResolve(prog, m) ==
  IF DuplicateDecl(prog, m) THEN [err |-> "InvalidIdentifier", table |-> {}]
  ELSE LET t == RefTable(prog, m) IN
       IF \E r \in t : r.b.kind = "none" THEN [err |-> "NotInScope", table |-> {}]
       ELSE [err |-> "", table |-> t]

=============================================================================
