--------------------------------- MODULE Lsp ---------------------------------
(***************************************************************************)
(* The language server (oal-client/src/bin/oal-lsp.rs main_loop/refresh,   *)
(* oal-client/src/lsp/mod.rs Workspace and Folder) over a small workspace. *)
(*                                                                         *)
(* State                                                                   *)
(*   client     the client's truth: per URI the open text, or "closed"     *)
(*   docs       the server's document store (Workspace.docs): open texts   *)
(*              AND texts cached from disk by read_file; "none" = no entry *)
(*   stale      GlobalState.is_stale                                       *)
(*   published  what the client last received per URI (set of diagnostic   *)
(*              classes; never published = {})                             *)
(*   pending    Workspace.errors between Evaluate and Publish              *)
(* Actions: DidOpen, DidChange, DidClose (each sets stale), and Refresh    *)
(* split as in the code into Evaluate (Folder::eval: load from             *)
(* docs-or-disk, caching every file read; compile; eval) and Publish       *)
(* (Workspace::diagnostics + publishDiagnostics).                          *)
(* Texts are abstract values with attributes (imports, syntax error,       *)
(* compile error, evaluation error); which concrete source realises them   *)
(* is the driver's business.                                               *)
(***************************************************************************)
EXTENDS Naturals, Sequences, FiniteSets, TLC, Json

CONSTANTS MaxEvents,                  \* bound on the length of a history
          ResetsPreviouslyPublished   \* TRUE: Publish also resets every URI with published diagnostics
                                      \* FALSE: only the keys of docs (the pinned implementation)

Uris == {"main", "a", "b", "x"}

\* which abstract texts a document may hold
Allowed(u) == CASE u = "main" -> {"mA", "mAB", "m0", "mSynA", "mEvalA"}
                [] u = "a"    -> {"aOK", "aSyn", "aScope", "aB", "aMain"}
                [] u = "b"    -> {"bOK", "bSyn"}
                [] u = "x"    -> {"xOK", "xSyn"}

Disk == [u \in Uris |-> CASE u = "main" -> "mA" [] u = "a" -> "aOK" [] u = "b" -> "bOK" [] u = "x" -> "xOK"]

Imports(t) == CASE t \in {"mA", "mSynA", "mEvalA"} -> {"a"}
                [] t = "mAB" -> {"a", "b"}
                [] t = "aB" -> {"b"}
                [] t = "aMain" -> {"main"}
                [] OTHER -> {}
HasSyntaxError(t)  == t \in {"mSynA", "aSyn", "bSyn", "xSyn"}
HasCompileError(t) == t = "aScope"
HasEvalError(t)    == t = "mEvalA"

Classes == {"syntax", "scope", "eval", "cycle"}
NoDiags == [u \in Uris |-> {}]

\* ---- the abstract analysis: what one load/compile/eval cycle reports for a view of the texts ----
RECURSIVE ReachFrom(_, _, _)
ReachFrom(view, S, n) == IF n = 0 THEN S ELSE ReachFrom(view, S \cup UNION {Imports(view[u]) : u \in S}, n - 1)
Loaded(view) == ReachFrom(view, {"main"}, Cardinality(Uris))
OnCycle(view, u) == u \in ReachFrom(view, Imports(view[u]), Cardinality(Uris))
Cyclic(view) == {u \in Loaded(view) : OnCycle(view, u)}

\* the set of possible reports (the module blamed for a cycle is not determined)
Reports(view) ==
  LET L == Loaded(view)
      syn == [u \in Uris |-> IF u \in L /\ HasSyntaxError(view[u]) THEN {"syntax"} ELSE {}]
  IN IF Cyclic(view) # {}
     THEN {[u \in Uris |-> IF u = c THEN syn[u] \cup {"cycle"} ELSE syn[u]] : c \in Cyclic(view)}
     ELSE IF \E u \in L : HasCompileError(view[u])
     THEN {[u \in Uris |-> IF HasCompileError(view[u]) /\ u \in L THEN syn[u] \cup {"scope"} ELSE syn[u]]}
     ELSE IF HasEvalError(view["main"])
     THEN {[u \in Uris |-> IF u = "main" THEN syn[u] \cup {"eval"} ELSE syn[u]]}
     ELSE {syn}

\* ---- state --------------------------------------------------------------------------------------
VARIABLES client, docs, stale, published, pending, pc, n, hist
vars == <<client, docs, stale, published, pending, pc, n, hist>>
view == <<client, docs, stale, published, pending, pc>>      \* n and hist are history variables

ViewOf(d) == [u \in Uris |-> IF d[u] # "none" THEN d[u] ELSE Disk[u]]

Init ==
  /\ client = [u \in Uris |-> "closed"]
  /\ docs = [u \in Uris |-> "none"]
  /\ stale = TRUE                       \* GlobalState starts stale
  /\ published = NoDiags
  /\ pending = NoDiags
  /\ pc = "idle" /\ n = 0 /\ hist = <<>>

Event(e) == n < MaxEvents /\ n' = n + 1 /\ hist' = Append(hist, e)

DidOpen(u, t) ==
  /\ pc = "idle" /\ client[u] = "closed" /\ t \in Allowed(u)
  /\ client' = [client EXCEPT ![u] = t]
  /\ docs' = [docs EXCEPT ![u] = t]
  /\ stale' = TRUE
  /\ Event([e |-> "open", u |-> u, t |-> t, p |-> NoDiags])
  /\ UNCHANGED <<published, pending, pc>>

DidChange(u, t) ==
  /\ pc = "idle" /\ client[u] # "closed" /\ t \in Allowed(u) /\ t # client[u]
  /\ client' = [client EXCEPT ![u] = t]
  /\ docs' = [docs EXCEPT ![u] = t]
  /\ stale' = TRUE
  /\ Event([e |-> "change", u |-> u, t |-> t, p |-> NoDiags])
  /\ UNCHANGED <<published, pending, pc>>

DidClose(u) ==
  /\ pc = "idle" /\ client[u] # "closed"
  /\ client' = [client EXCEPT ![u] = "closed"]
  /\ docs' = [docs EXCEPT ![u] = "none"]
  /\ stale' = TRUE
  /\ Event([e |-> "close", u |-> u, t |-> "", p |-> NoDiags])
  /\ UNCHANGED <<published, pending, pc>>

\* Folder::eval: every file read is cached in docs; errors are collected
Evaluate ==
  /\ pc = "idle" /\ stale
  /\ stale' = FALSE
  /\ LET v == ViewOf(docs) IN
     /\ pending' \in Reports(v)
     /\ docs' = [u \in Uris |-> IF u \in Loaded(v) THEN v[u] ELSE docs[u]]
  /\ pc' = "publish"
  /\ n' = n /\ hist' = hist
  /\ UNCHANGED <<client, published>>

\* Workspace::diagnostics + publishDiagnostics: which URIs are reset
ResetSet == IF ResetsPreviouslyPublished
            THEN {u \in Uris : docs[u] # "none" \/ published[u] # {}}
            ELSE {u \in Uris : docs[u] # "none"}

Publish ==
  /\ pc = "publish"
  /\ published' = [u \in Uris |-> IF u \in ResetSet \/ pending[u] # {} THEN pending[u] ELSE published[u]]
  /\ pending' = NoDiags
  /\ pc' = "idle"
  /\ Event([e |-> "refresh", u |-> "", t |-> "", p |-> published'])
  /\ UNCHANGED <<client, docs, stale>>

Next ==
  \/ \E u \in Uris : \E t \in Allowed(u) : DidOpen(u, t) \/ DidChange(u, t)
  \/ \E u \in Uris : DidClose(u)
  \/ Evaluate
  \/ Publish

Spec == Init /\ [][Next]_vars

\* ---- properties -------------------------------------------------------------------------------
\* the server's copy of each open document is the client's; a cached copy of a closed one is the disk's
NoDrift == \A u \in Uris :
  /\ client[u] # "closed" => docs[u] = client[u]
  /\ client[u] = "closed" => docs[u] \in {"none", Disk[u]}

\* what a fresh server handed the current texts would have published
ClientView == [u \in Uris |-> IF client[u] # "closed" THEN client[u] ELSE Disk[u]]
FreshReports == Reports(ClientView)

HistoryIndependent == (pc = "idle" /\ ~stale) => published \in FreshReports

\* the clause users notice: no diagnostic survives on a document that a fresh server would show clean
StaleCleared == (pc = "idle" /\ ~stale) =>
  \A u \in Uris : published[u] # {} => \E r \in FreshReports : r[u] # {}

\* ---- behaviours for the replay on the real server -------------------------------------------------
Replay == (pc = "idle" /\ n = MaxEvents) => PrintT(<<"REPLAY", ToJson([hist |-> hist, published |-> published])>>)

\* unbounded configuration (mc/Lsp_unbounded.cfg): one shortest history per reachable quiescent state of the
\* complete state graph (the VIEW hides n and hist, so each distinct state is visited - and printed - once)
ReplayQuiescent == (pc = "idle" /\ ~stale /\ n > 0) => PrintT(<<"REPLAY", ToJson([hist |-> hist, published |-> published])>>)
=============================================================================
