----------------------------- MODULE Determinism -----------------------------
(***************************************************************************)
(* Deterministic output: every collection of the evaluated specification   *)
(* that reaches the serializer is iterated in an order that is a function  *)
(* of the sources.  The collections on the output path (oal-compiler       *)
(* spec.rs / annotation.rs / eval.rs, oal-openapi lib.rs):                 *)
(*   refs      references -> components        IndexMap (insertion order)  *)
(*   ranges    (status, media) -> content      IndexMap                    *)
(*   xfers     method -> transfer              EnumMap (method order)      *)
(*   props     object properties, parameters   Vec                         *)
(*   examples  name -> URL                     HashMap in the pinned code  *)
(* A collection is modelled as the sequence of its entries in source order *)
(* plus the discipline with which it is iterated: "source" (insertion      *)
(* order), "sorted" (a fixed order on keys) or "hashed" (any order: the    *)
(* iteration order of a randomly seeded hash map differs between           *)
(* processes).  Emit takes one entry at a time in an order the discipline  *)
(* allows.                                                                 *)
(***************************************************************************)
EXTENDS Naturals, Sequences, FiniteSets, TLC

CONSTANTS Keys,               \* e.g. {"a", "b", "c"}
          ExamplesDiscipline  \* "source" (the design) or "hashed" (the pinned implementation)

Collections == {"refs", "ranges", "xfers", "props", "examples"}
Discipline(c) == CASE c = "examples" -> ExamplesDiscipline
                   [] c = "xfers" -> "sorted"
                   [] OTHER -> "source"

\* all sequences without repetition over subsets of Keys (the entries in source order)
Inj(S) == {f \in [1..Cardinality(S) -> S] : \A a, b \in 1..Cardinality(S) : a # b => f[a] # f[b]}
Sources == UNION {Inj(S) : S \in SUBSET Keys}

VARIABLES coll, src, left, out
vars == <<coll, src, left, out>>

Init == coll \in Collections /\ src \in Sources /\ left = {src[i] : i \in 1..Len(src)} /\ out = <<>>

Rank(k) == CHOOSE i \in 1..Len(src) : src[i] = k

\* which entry may be emitted next
Eligible ==
  CASE Discipline(coll) = "source" -> {k \in left : \A j \in left : Rank(k) <= Rank(j)}
    [] Discipline(coll) = "sorted" -> IF left = {} THEN {} ELSE {CHOOSE k \in left : TRUE}   \* a fixed choice function of the set
    [] OTHER -> left                                                       \* hashed: any remaining entry

Emit == /\ left # {}
        /\ \E k \in Eligible : out' = Append(out, k) /\ left' = left \ {k}
        /\ UNCHANGED <<coll, src>>
Done == left = {} /\ UNCHANGED vars
Next == Emit \/ Done
Spec == Init /\ [][Next]_vars /\ WF_vars(Emit)

\* the output is a function of the sources: for "source" collections it is the source order itself,
\* for the others at least no two behaviours from the same sources differ, i.e. every state has one successor
Deterministic == Cardinality(Eligible) <= 1
SourceOrder == (left = {} /\ Discipline(coll) = "source") => out = src
Terminates == <>(left = {})
=============================================================================
