----------------------------- MODULE Determinism -----------------------------
(***************************************************************************)
(* Deterministic output: every collection of the evaluated specification   *)
(* that reaches the serializer is iterated in an order that is a function  *)
(* of the sources.  The collections on the output path (oal-compiler       *)
(* spec.rs / annotation.rs / eval.rs, oal-openapi lib.rs):                 *)
(*   refs      references -> components        IndexMap (insertion order)  *)
(*   ranges    (status, media) -> content      IndexMap                    *)
(*   xfers     method -> transfer              EnumMap (method order)      *)
(*   props     object properties, parameters   Vec                         *)
(*   examples  name -> URL                     HashMap in the pinned code  *)
(* A collection is modelled as the sequence of its entries in source order *)
(* plus the discipline with which it is iterated: "source" (insertion      *)
(* order), "sorted" (a fixed order on keys) or "hashed" (any order: the    *)
(* iteration order of a randomly seeded hash map differs between           *)
(* processes).  Emit takes one entry at a time in an order the discipline  *)
(* allows.                                                                 *)
(* Besides the iteration orders the output contains generated values: the  *)
(* name of an implicit component is a hash of (module location, scope id,  *)
(* node), where the scope id comes from a counter; defaults (examples)     *)
(* could be computed from ambient state.  The ambient state of a run - how *)
(* many compilations the process did before (`prior`) and the wall clock   *)
(* (`clock`) and the working directory the process was started from       *)
(* (`cwd`: 0 = the sources' directory, 1 = below it, 2 = its parent) - is  *)
(* chosen freely in Init; AmbientFree says the generated values are those  *)
(* of the run with prior = 0, clock = 0 and cwd = 0.                       *)
(***************************************************************************)
EXTENDS Naturals, Sequences, FiniteSets, TLC

CONSTANTS Keys,               \* e.g. {"a", "b", "c"}
          ExamplesDiscipline, \* "source" (the design) or "hashed" (the pinned implementation)
          ScopeCounter,       \* "per-evaluation" (eval.rs: Context::scope_id_seq) or "per-process" (a static counter)
          DefaultsReadClock,  \* FALSE in the code: no default value is computed from the time of the run
          HashedLocation      \* "absolute" (grammar.rs NodeRef::digest: the module's locator URL) or "cwd-relative"

Collections == {"refs", "ranges", "xfers", "props", "examples"}
Discipline(c) == CASE c = "examples" -> ExamplesDiscipline
                   [] c = "xfers" -> "sorted"
                   [] OTHER -> "source"

\* all sequences without repetition over subsets of Keys (the entries in source order)
Inj(S) == {f \in [1..Cardinality(S) -> S] : \A a, b \in 1..Cardinality(S) : a # b => f[a] # f[b]}
Sources == UNION {Inj(S) : S \in SUBSET Keys}

VARIABLES coll, src, left, out,
          prior, clock, cwd     \* ambient state of the run: earlier compilations in this process, wall clock, working directory
vars == <<coll, src, left, out, prior, clock, cwd>>

Init == /\ coll \in Collections /\ src \in Sources /\ left = {src[i] : i \in 1..Len(src)} /\ out = <<>>
        /\ prior \in 0..2 /\ clock \in 0..2 /\ cwd \in 0..2

\* every compilation pushes ScopesPerRun scopes; the k-th scope of this run gets the id
ScopesPerRun == 2
ScopeId(k) == IF ScopeCounter = "per-evaluation" THEN k ELSE prior * ScopesPerRun + k
Location == IF HashedLocation = "absolute" THEN 0 ELSE cwd   \* the module location as it enters the digest
GeneratedName(k) == <<"hash", Location, ScopeId(k)>>       \* the node is a function of the sources
DefaultExample == IF DefaultsReadClock THEN clock ELSE 0
AmbientFree == /\ \A k \in 1..ScopesPerRun : GeneratedName(k) = <<"hash", 0, k>>
               /\ DefaultExample = 0

Rank(k) == CHOOSE i \in 1..Len(src) : src[i] = k

\* which entry may be emitted next
Eligible ==
  CASE Discipline(coll) = "source" -> {k \in left : \A j \in left : Rank(k) <= Rank(j)}
    [] Discipline(coll) = "sorted" -> IF left = {} THEN {} ELSE {CHOOSE k \in left : TRUE}   \* a fixed choice function of the set
    [] OTHER -> left                                                       \* hashed: any remaining entry

Emit == /\ left # {}
        /\ \E k \in Eligible : out' = Append(out, k) /\ left' = left \ {k}
        /\ UNCHANGED <<coll, src, prior, clock, cwd>>
Done == left = {} /\ UNCHANGED vars
Next == Emit \/ Done
Spec == Init /\ [][Next]_vars /\ WF_vars(Emit)

\* the output is a function of the sources: for "source" collections it is the source order itself,
\* for the others at least no two behaviours from the same sources differ, i.e. every state has one successor
Deterministic == Cardinality(Eligible) <= 1
SourceOrder == (left = {} /\ Discipline(coll) = "source") => out = src
Terminates == <>(left = {})
=============================================================================
