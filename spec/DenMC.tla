-------------------------------- MODULE DenMC --------------------------------
(***************************************************************************)
(* The reference denotation (Den.tla) of every member of the families is   *)
(* printed for the comparison with the document the real compiler emits.   *)
(***************************************************************************)
EXTENDS Den, Kinds, Families, Json, IOUtils

CONSTANTS Fam          \* which family

\* oracle mode: programs supplied by the driver (random composites, repository corpus through tree2ast)
FilePrograms == ndJsonDeserialize(IOEnv.PROGRAMS)

Family ==
  CASE Fam = "file" -> {FilePrograms[i] : i \in 1..Len(FilePrograms)}
    [] Fam = "ranges" -> RangesFamily
    [] Fam = "uris" -> UrisFamily
    [] Fam = "xfers" -> XfersFamily
    [] Fam = "schemas" -> SchemasFamily
    [] Fam = "annots" -> AnnotsFamily
    [] Fam = "dynscope" -> DynScopeFamily
    [] Fam = "recinst" -> {RecInst(nm) : nm \in RecInstNames}
    [] Fam = "recgraphs2" -> RecGraphs(2)
    [] Fam = "posshape" -> {ProgOf(pn, sn, ind) : pn \in AllPositions, sn \in AllShapes, ind \in {"direct", "let", "reflet", "idfn", "implet", "impfn"}}
    [] Fam = "fnpos" -> {FnProg(pn, sn, w) : pn \in AllFnPositions, sn \in AllShapes, w \in {"fnlocal", "fnimp"}}

VARIABLE prog
Init == prog \in Family
Next == UNCHANGED prog

RECURSIVE SetSeq(_)
SetSeq(S) == IF S = {} THEN <<>> ELSE LET x == CHOOSE x \in S : TRUE IN <<x>> \o SetSeq(S \ {x})

\* resolution must succeed for the denotation to be defined
Resolves == Accepted(prog)       \* the denotation is defined for accepted programs

Label == IF Fam = "annots" THEN (CHOOSE x \in AnnotsLabelled : x.p = prog).l ELSE <<>>

\* the members only (for checks that need the programs, not their denotation)
PrintProg == PrintT(<<"CASE", ToJson([prog |-> prog])>>)

Idx == IF Fam = "file" THEN CHOOSE i \in 1..Len(FilePrograms) : FilePrograms[i] = prog ELSE 0

PrintCase ==
  IF ~Resolves THEN PrintT(<<"CASE", ToJson([idx |-> Idx, prog |-> prog, label |-> Label, defined |-> FALSE, paths |-> <<>>, comps |-> <<>>])>>)
  ELSE PrintT(<<"CASE", ToJson([idx |-> Idx, prog |-> prog, label |-> Label, defined |-> TRUE, paths |-> Paths(prog),
                                comps |-> LET S == {Component(prog, x) : x \in RefDecls(prog)} IN SetSeq(S)])>>)
=============================================================================
