------------------------------- MODULE KindsMC -------------------------------
(***************************************************************************)
(* Families of programs for the kind checker (Kinds.tla):                  *)
(*   PosShape - every consuming position of the language x every shape of  *)
(*              value x every indirection through which the value can be   *)
(*              supplied (direct, let, @let, identity function, imported   *)
(*              let, imported identity function).                          *)
(* One initial state per program; the reference verdict is printed as a    *)
(* CASE line for the replay on the real compiler.                          *)
(***************************************************************************)
EXTENDS Kinds, Families, Json, IOUtils

CONSTANTS Positions, Shapes, Indirections

VARIABLES pn, sn, ind
vars == <<pn, sn, ind>>
Init == \/ pn \in Positions /\ sn \in Shapes /\ ind \in Indirections /\ ValidMember(pn, ind)
        \/ pn = "arity" /\ sn \in ArityNames /\ ind = "direct"            \* the Arity family rides along
        \/ pn = "recpair" /\ ind = "direct"                                 \* and the RecPair family
           /\ sn \in RecPairHosts \X RecPairBinders \X RecPairKinds \X RecPairBinders \X RecPairKinds
Next == UNCHANGED vars

\* oracle mode: programs supplied by the driver (random composites, repository corpus through tree2ast)
FilePrograms == ndJsonDeserialize(IOEnv.PROGRAMS)
FileInit == pn = "file" /\ sn = "" /\ ind \in {ToString(i) : i \in 1..Len(FilePrograms)}
FileIndex == CHOOSE i \in 1..Len(FilePrograms) : ToString(i) = ind
PrintFileCase ==
  LET r == Compile(FilePrograms[FileIndex])
  IN PrintT(<<"CASE", ToJson([idx |-> FileIndex, ok |-> r.ok, cls |-> ErrorClass(r.phase), phase |-> r.phase, mod |-> r.mod])>>)

PrintCase ==
  LET prog == Member(pn, sn, ind)
      r == Compile(prog)
  IN PrintT(<<"CASE", ToJson([pos |-> pn, shape |-> sn, ind |-> ind, prog |-> prog,
                              ok |-> r.ok, cls |-> ErrorClass(r.phase), phase |-> r.phase, mod |-> r.mod])>>)
=============================================================================
